#!/bin/sh
# Builds the symbolic execution engine offline from files on disk.
set -e
cd "$(dirname "$0")"
export GOFLAGS=-mod=mod GOPROXY=off GOSUMDB=off GOTOOLCHAIN=local CGO_ENABLED=0
mkdir -p bin evidence
(cd engine && go build -o ../bin/gosym .)
echo "gosym built"
