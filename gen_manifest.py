#!/usr/bin/env python3
"""Regenerates MANIFEST.json from props/*.json and manifest_meta.json."""
import json, os, glob
V = os.path.dirname(os.path.abspath(__file__))
meta = json.load(open(os.path.join(V, "manifest_meta.json")))
checks = []
claimed = set()
for p in sorted(glob.glob(os.path.join(V, "props", "C*.json"))):
    pr = json.load(open(p))
    pid = pr["id"]
    if pr.get("disabled"):
        continue
    claimed.add(pid)
    m = meta["checks"][pid]
    checks.append({
        "property_id": pid,
        "quick_cmd": "./bin/check %s quick" % pid,
        "thorough_cmd": "./bin/check %s thorough" % pid,
        "evidence_file": "/verif/evidence/%s.json" % pid,
        "replay_cmd_template": "./bin/check --replay {path}",
        "engine": "gosym",
        "level_claimed": {"category": "model_checking", "text": m["text"], "design_ref": m.get("design_ref", "DESIGN.md section 6")},
        "level_note": m["note"],
        "technique": m.get("technique", "bounded symbolic execution of the go/ssa form of the real functions; every path assertion discharged by an SMT solver (z3), counterexamples replayed natively"),
    })
na = [{"property_id": k, "reason": v} for k, v in sorted(meta["not_applicable"].items()) if k not in claimed]
man = {
    "version": 1,
    "setup_cmd": "./setup.sh",
    "hooks": {"guard": "verif", "enable": "none needed: harnesses are injected by go/packages overlays and go test -overlay; /repo carries no hook code", "baseline_off_cmd": meta["baseline_off_cmd"], "source_commits": [], "add_only": True},
    "engines": [{"name": "gosym", "path": "/verif/engine", "serves_properties": sorted(claimed), "kind_free_text": "symbolic interpreter over golang.org/x/tools/go/ssa emitting SMT-LIB2 to z3/cvc5; decision-vector path exploration with if-conversion; native replay via go test -overlay"}],
    "checks": checks,
    "not_applicable": na,
    "notes": meta.get("notes", ""),
}
json.dump(man, open(os.path.join(V, "MANIFEST.json"), "w"), indent=1)
print("claimed:", sorted(claimed), "n/a:", [x["property_id"] for x in na])
