package data

// Translator self-test (see harness/modbus/zz_verif_self.go): the sample
// values of encode_decode_test.go, merge_test.go and point_test.go through
// the real functions, under the engine and natively.

import (
	"encoding/binary"
	"math"
	"time"
)

func init() {
	vRegister("HarnessSelfData", HarnessSelfData)
}

type selfType struct {
	ID          string  `node:"id"`
	Parent      string  `node:"parent"`
	Description string  `point:"description"`
	Count       int     `point:"count"`
	Value       float64 `point:"value"`
	Value2      float32 `point:"value2"`
	Role        string  `edgepoint:"role"`
	Tombstone   bool    `edgepoint:"tombstone"`
}

func HarnessSelfData() {
	ne := NodeEdge{ID: "123", Parent: "456", Type: "testType",
		Points:     []Point{{Type: "description", Text: "test type"}, {Type: "count", Value: 120}, {Type: "value", Value: 15.43}, {Type: "value2", Value: 10}},
		EdgePoints: []Point{{Type: "role", Text: "admin"}, {Type: "tombstone", Value: 1}}}
	want := selfType{ID: "123", Parent: "456", Description: "test type", Count: 120, Value: 15.43, Value2: 10, Role: "admin", Tombstone: true}
	var out selfType
	err := Decode(NodeEdgeChildren{ne, nil}, &out)
	vAssert(err == nil && out == want, "self: TestDecode")

	enc, err := Encode(want)
	vAssert(err == nil && enc.ID == "123" && enc.Parent == "456" && enc.Type == "selfType" && len(enc.Points) == 4 && len(enc.EdgePoints) == 2, "self: TestEncode shape")
	find := func(ps []Point, typ string) Point {
		for _, p := range ps {
			if p.Type == typ {
				return p
			}
		}
		return Point{Type: "missing"}
	}
	vAssert(find(enc.Points, "description").Text == "test type" && find(enc.Points, "count").Value == 120 && find(enc.Points, "value").Value == 15.43 && find(enc.Points, "value2").Value == 10, "self: TestEncode points")
	vAssert(find(enc.EdgePoints, "role").Text == "admin" && find(enc.EdgePoints, "tombstone").Value == 1, "self: TestEncode edge points")

	m := want
	err = MergePoints(m.ID, []Point{{Type: "description", Text: "test type modified"}}, &m)
	vAssert(err == nil && m.Description == "test type modified" && m.Count == 120 && m.Role == "admin", "self: TestMergePoints")
	err = MergeEdgePoints(m.ID, m.Parent, []Point{{Type: "role", Text: "user"}}, &m)
	vAssert(err == nil && m.Role == "user" && m.Description == "test type modified", "self: TestMergeEdgePoints")

	pts, err := DiffPoints(want, selfType{ID: "123", Parent: "456", Description: "test type", Count: 121, Value: 15.43, Value2: 10, Role: "admin", Tombstone: true})
	vAssert(err == nil && len(pts) == 1 && pts[0].Type == "count" && pts[0].Value == 121, "self: DiffPoints of one changed field")

	// high-rate payload (point_test.go), with a fixed start time
	var buf []byte
	b := make([]byte, 16)
	copy(b, []byte("voltage"))
	buf = append(buf, b...)
	b = make([]byte, 16)
	copy(b, []byte("AX"))
	buf = append(buf, b...)
	start := time.Unix(1700000000, 123)
	b = make([]byte, 8)
	binary.LittleEndian.PutUint64(b, uint64(start.UnixNano()))
	buf = append(buf, b...)
	b = make([]byte, 4)
	binary.LittleEndian.PutUint32(b, uint32((50 * time.Millisecond).Nanoseconds()))
	buf = append(buf, b...)
	b = make([]byte, 4)
	binary.LittleEndian.PutUint32(b, math.Float32bits(10.5))
	buf = append(buf, b...)
	b = make([]byte, 4)
	binary.LittleEndian.PutUint32(b, math.Float32bits(1000.23))
	buf = append(buf, b...)
	var got Points
	err = DecodeSerialHrPayload(buf, func(p Point) { got = append(got, p) })
	vAssert(err == nil && len(got) == 2, "self: TestDecodeSerialHrPayload count")
	vAssert(got[0].Type == "voltage" && got[0].Key == "AX" && got[0].Value == 10.5 && got[0].Time.Equal(start), "self: first high-rate sample")
	vAssert(got[1].Value == float64(float32(1000.23)) && got[1].Time.Equal(start.Add(50*time.Millisecond)), "self: second high-rate sample")

	p1 := Point{Type: "pointa", Time: start}
	p2 := Point{Type: "pointa", Time: start, Origin: "x", Tombstone: 3}
	vAssert(p1.CRC() == p2.CRC(), "self: CRC ignores origin and tombstone")
	vCover("self data: done")
}
