package data

// C12 — wire encodings are lossless and malformed input is rejected cleanly.
//
// Real code: Point.ToPb, PbToPoint, Points.ToPb, PbDecodePoints, NodeEdge.ToPb
// / ToPbNode, PbToNode, PbDecodeNode/NodeRequest/Nodes/NodesRequest,
// PbDecodeSerialPoints, DecodeSerialHrPayload. The protobuf wire codec itself
// is the engine's stub (marshal/unmarshal inverse pair).

import (
	"math"
	"time"

	"github.com/golang/protobuf/ptypes/timestamp"
	"github.com/simpleiot/simpleiot/internal/pb"
	"google.golang.org/protobuf/proto"
)

func init() {
	vRegister("HarnessC12Point", HarnessC12Point)
	vRegister("HarnessC12Node", HarnessC12Node)
	vRegister("HarnessC12Decoders", HarnessC12Decoders)
	vRegister("HarnessC12HrPayload", HarnessC12HrPayload)
}

func c12Str(max int) string { return vStr(vChoose(max + 1)) }

func c12Time() time.Time {
	if vBool() {
		return time.Time{}
	}
	return time.Unix(0, vI64())
}

func c12Point(m int) Point {
	p := Point{
		Type:      c12Str(m),
		Key:       c12Str(m),
		Text:      c12Str(m),
		Origin:    c12Str(m),
		Time:      c12Time(),
		Value:     vF64(),
		Tombstone: int(vI32()),
	}
	if vBool() {
		p.Data = vBytes(1 + vChoose(m))
	}
	return p
}

func c12BytesEq(a, b []byte) bool {
	if len(a) != len(b) {
		return false
	}
	for i := range a {
		if a[i] != b[i] {
			return false
		}
	}
	return true
}

func c12PointEq(a, b Point) bool {
	return a.Type == b.Type && a.Key == b.Key && a.Text == b.Text && a.Origin == b.Origin &&
		a.Tombstone == b.Tombstone && a.Time.Equal(b.Time) && a.Time.IsZero() == b.Time.IsZero() &&
		math.Float64bits(a.Value) == math.Float64bits(b.Value) && c12BytesEq(a.Data, b.Data)
}

// HarnessC12Point: a list of points survives the wire format.
func HarnessC12Point() {
	n := vChoose(vParam("points", 2) + 1)
	var pts Points
	for i := 0; i < n; i++ {
		pts = append(pts, c12Point(vParam("str", 1)))
	}
	b, err := pts.ToPb()
	vAssert(err == nil, "points encode")
	got, err := PbDecodePoints(b)
	vAssert(err == nil, "encoded points decode")
	vAssert(len(got) == len(pts), "same number of points")
	for i := range pts {
		vAssert(got[i].Type == pts[i].Type && got[i].Key == pts[i].Key && got[i].Text == pts[i].Text && got[i].Origin == pts[i].Origin, "point strings survive the wire")
		vAssert(got[i].Tombstone == pts[i].Tombstone, "tombstone survives the wire")
		vAssert(got[i].Time.Equal(pts[i].Time) && got[i].Time.IsZero() == pts[i].Time.IsZero(), "time survives the wire to the nanosecond")
		vAssert(math.Float64bits(got[i].Value) == math.Float64bits(pts[i].Value), "value survives the wire bit for bit")
		vAssert(c12BytesEq(got[i].Data, pts[i].Data), "binary data survives the wire")
	}
	vCover("point: done")
}

// HarnessC12Node: a node with both point lists survives the wire format.
func HarnessC12Node() {
	m := vParam("str", 1)
	n := NodeEdge{ID: c12Str(m), Type: c12Str(m), Parent: c12Str(m), Hash: vU32()}
	for i, k := 0, vChoose(vParam("npoints", 1)+1); i < k; i++ {
		n.Points = append(n.Points, c12Point(m))
	}
	for i, k := 0, vChoose(vParam("npoints", 1)+1); i < k; i++ {
		n.EdgePoints = append(n.EdgePoints, c12Point(m))
	}
	b, err := n.ToPb()
	vAssert(err == nil, "node encodes")
	got, err := PbDecodeNode(b)
	vAssert(err == nil, "encoded node decodes")
	vAssert(got.ID == n.ID && got.Type == n.Type && got.Parent == n.Parent && got.Hash == n.Hash, "node id, type, parent and hash survive the wire")
	vAssert(len(got.Points) == len(n.Points) && len(got.EdgePoints) == len(n.EdgePoints), "both point lists keep their length")
	for i := range n.Points {
		vAssert(c12PointEq(got.Points[i], n.Points[i]), "node points survive the wire")
	}
	for i := range n.EdgePoints {
		vAssert(c12PointEq(got.EdgePoints[i], n.EdgePoints[i]), "edge points survive the wire")
	}
	vCover("node: done")
}

// c12PbPoint builds an arbitrary well-typed pb.Point (what Unmarshal of
// arbitrary bytes can produce): any scalars, Time possibly nil or out of range.
func c12PbPoint() *pb.Point {
	p := &pb.Point{Type: vStr(1), Key: vStr(1), Text: vStr(1), Origin: vStr(1), Value: vF64(), Tombstone: vI32()}
	if vBool() {
		p.Time = &timestamp.Timestamp{Seconds: vI64(), Nanos: vI32()}
	}
	return p
}

func c12PbNode() *pb.Node {
	n := &pb.Node{Id: vStr(1), Type: vStr(1), Parent: vStr(1), Hash: vI32()}
	for i, k := 0, vChoose(2); i < k; i++ {
		n.Points = append(n.Points, c12PbPoint())
	}
	for i, k := 0, vChoose(2); i < k; i++ {
		n.EdgePoints = append(n.EdgePoints, c12PbPoint())
	}
	return n
}

func c12Marshal(m proto.Message) []byte {
	b, err := proto.Marshal(m)
	vAssume(err == nil)
	return b
}

// HarnessC12Decoders: every decoder, fed any well-typed message or garbage,
// returns a value or an error; it never panics.
func HarnessC12Decoders() {
	garbage := vBool()
	var b []byte
	which := vChoose(6)
	if garbage {
		b = vBytes(vChoose(4))
	}
	switch which {
	case 0:
		if !garbage {
			ps := &pb.Points{}
			for i, k := 0, vChoose(3); i < k; i++ {
				ps.Points = append(ps.Points, c12PbPoint())
			}
			b = c12Marshal(ps)
		}
		vCover("decoders: points")
		pts, err := PbDecodePoints(b)
		vAssert(err != nil || pts != nil, "PbDecodePoints returns points or an error")
	case 1:
		if !garbage {
			b = c12Marshal(c12PbNode())
		}
		vCover("decoders: node")
		_, _ = PbDecodeNode(b)
	case 2:
		if !garbage {
			r := &pb.NodeRequest{Error: vStr(vChoose(2))}
			if vBool() {
				r.Node = c12PbNode()
			}
			b = c12Marshal(r)
		}
		vCover("decoders: node request")
		_, _ = PbDecodeNodeRequest(b)
	case 3:
		if !garbage {
			ns := &pb.Nodes{}
			for i, k := 0, vChoose(3); i < k; i++ {
				ns.Nodes = append(ns.Nodes, c12PbNode())
			}
			b = c12Marshal(ns)
		}
		vCover("decoders: nodes")
		_, _ = PbDecodeNodes(b)
	case 4:
		if !garbage {
			r := &pb.NodesRequest{Error: vStr(vChoose(2))}
			for i, k := 0, vChoose(3); i < k; i++ {
				r.Nodes = append(r.Nodes, c12PbNode())
			}
			b = c12Marshal(r)
		}
		vCover("decoders: nodes request")
		_, _ = PbDecodeNodesRequest(b)
	case 5:
		if !garbage {
			sp := &pb.SerialPoints{}
			for i, k := 0, vChoose(3); i < k; i++ {
				sp.Points = append(sp.Points, &pb.SerialPoint{Type: vStr(vChoose(2)), Key: vStr(vChoose(2)), Text: vStr(vChoose(2)), Origin: vStr(vChoose(2)), Value: vF32(), Time: vI64(), Tombstone: vI32()})
			}
			b = c12Marshal(sp)
		}
		vCover("decoders: serial points")
		_, _ = PbDecodeSerialPoints(b)
	}
}

// HarnessC12HrPayload: the high-rate payload parser on arbitrary bytes.
func HarnessC12HrPayload() {
	n := vChoose(vParam("hrlen", 57) + 1)
	payload := vBytes(n)
	// the type and key fields may have NULs only in their first and last two
	// bytes (bounds the number of ways the trimming can go)
	for i := 2; i < 14 && 16+i < n; i++ {
		vAssume(payload[i] != 0 && payload[16+i] != 0)
	}
	orig := append([]byte{}, payload...)
	var got []Point
	err := DecodeSerialHrPayload(payload, func(p Point) { got = append(got, p) })
	if n < 48 {
		vCover("hr: short")
		vAssert(err != nil && len(got) == 0, "a high-rate payload shorter than header plus one sample is refused")
		return
	}
	vCover("hr: ok")
	vAssert(err == nil, "a well-sized high-rate payload is accepted")
	cnt := (n - 44) / 4
	vAssert(len(got) == cnt, "one point per packed sample")
	trim := func(b []byte) string {
		i, j := 0, len(b)
		for i < j && b[i] == 0 {
			i++
		}
		for j > i && b[j-1] == 0 {
			j--
		}
		return string(b[i:j])
	}
	typ, key := trim(orig[0:16]), trim(orig[16:32])
	le64 := func(b []byte) uint64 {
		var v uint64
		for i := 7; i >= 0; i-- {
			v = v<<8 | uint64(b[i])
		}
		return v
	}
	start := int64(le64(orig[32:40]))
	period := int64(uint32(orig[40]) | uint32(orig[41])<<8 | uint32(orig[42])<<16 | uint32(orig[43])<<24)
	for i := 0; i < cnt; i++ {
		vAssert(got[i].Type == typ && got[i].Key == key, "sample carries the payload's type and key")
		bits := uint32(orig[44+4*i]) | uint32(orig[45+4*i])<<8 | uint32(orig[46+4*i])<<16 | uint32(orig[47+4*i])<<24
		want := float64(math.Float32frombits(bits))
		vAssert(math.Float64bits(got[i].Value) == math.Float64bits(want) || (want != want && got[i].Value != got[i].Value), "sample value is the packed float32")
		if start != 0 {
			vAssert(got[i].Time.UnixNano() == start+int64(i)*period, "sample time is start + i*period")
		}
	}
}
