package data

// C10 / C11 — typed configuration survives Encode/Decode and Diff/Merge;
// decoding arbitrary points never crashes.
//
// Real code: Encode, Decode, DiffPoints, MergePoints, MergeEdgePoints,
// GroupedPoints.SetValue, setVal, appendPointsFromValue, pointFromPrimitive,
// ToCamelCase, Points.Add, FindNodeInStruct, through the engine's reflect
// layer. One harness per field kind so that paths do not multiply.

import "math"

func init() {
	vRegister("HarnessC11Decode", HarnessC11Decode)
	vRegister("HarnessC10Scalars", HarnessC10Scalars)
	vRegister("HarnessC10Slices", HarnessC10Slices)
	vRegister("HarnessC10Maps", HarnessC10Maps)
	vRegister("HarnessC10SliceChain", HarnessC10SliceChain)
	vRegister("HarnessC10Limit", HarnessC10Limit)
	vRegister("HarnessC10Structs", HarnessC10Structs)
}

type vFlat struct {
	A int     `point:"a"`
	B string  `point:"b"`
	C float64 `point:"c"`
}

// vCfg has one field per supported kind.
type vCfg struct {
	ID     string         `node:"id"`
	Parent string         `node:"parent"`
	B      bool           `point:"b"`
	I      int            `point:"i"`
	I32    int32          `point:"i32"`
	U16    uint16         `point:"u16"`
	F      float64        `point:"f"`
	F32    float32        `point:"f32"`
	S      string         `point:"s"`
	PI     *int           `point:"pi"`
	PS     *string        `point:"ps"`
	SI     []int          `point:"si"`
	SS     []string       `point:"ss"`
	AF     [2]float64     `point:"af"`
	M      map[string]int `point:"m"`
	ST     vFlat          `point:"st"`
	PST    *vFlat         `point:"pst"`
	Role   string         `edgepoint:"role"`
	Tomb   bool           `edgepoint:"tombstone"`
}

var c11Types = []string{"b", "i", "i32", "u16", "f", "f32", "s", "pi", "ps", "si", "ss", "af", "m", "st", "pst", "zz"}

// c11Key: "", a digit, "-", a letter, a huge number or the largest int
func c11Key() string {
	switch vParam("c11keys", 0) {
	case 1:
		// small concrete keys only
		return []string{"", "0", "1", "2", "a"}[vChoose(5)]
	case 2:
		// concrete keys of every kind
		return []string{"", "0", "1", "2", "a", "-", "-1", "1001", "9223372036854775807", "99999999999999999999"}[vChoose(10)]
	}
	switch vChoose(6) {
	case 0:
		return ""
	case 1:
		return "99999999999999999999"
	case 2:
		return "1001"
	case 3:
		return "9223372036854775807" // math.MaxInt: index + 1 overflows
	}
	s := vStr(1 + vChoose(2))
	for i := 0; i < len(s); i++ {
		vAssume(s[i] == '-' || s[i] == 'a' || (s[i] >= '0' && s[i] <= '2'))
	}
	return s
}

func c11Point(typ string) Point {
	if vParam("c11containers", 0) == 1 {
		return Point{Type: typ, Key: c11Key(), Value: vF64(), Text: vStr(1), Tombstone: int(vI8())}
	}
	return Point{Type: typ, Key: c11Key(), Value: vF64(), Text: vStr(vChoose(2)), Tombstone: int(vI8())}
}

// c11Prior: an arbitrary prior value of the target.
func c11Prior() vCfg {
	c := vCfg{ID: "n"}
	if vBool() {
		x := int(vI32())
		s := vStr(1)
		c.PI, c.PS = &x, &s
		c.SI = []int{int(vI32()), int(vI32())}
		c.SS = []string{vStr(1)}
		c.M = map[string]int{"k": int(vI32())}
		c.PST = &vFlat{A: int(vI32())}
		vCover("c11: non-empty prior value")
	} else if vBool() {
		c.SI = []int{}
		c.SS = []string{}
		c.M = map[string]int{}
		vCover("c11: empty prior containers")
	}
	return c
}

// HarnessC11Decode: any list of points, any field kind, any prior value:
// Decode / MergePoints / MergeEdgePoints return nil or an error, never panic;
// points of an undeclared type change nothing.
func HarnessC11Decode() {
	c := c11Prior()
	typ := c11Types[vChoose(len(c11Types))]
	switch vParam("c11containers", 0) {
	case 1:
		// slice, array and map fields only (where several points of one type interact)
		typ = []string{"si", "ss", "af", "m"}[vChoose(4)]
	case 2:
		// every other kind of field
		typ = []string{"b", "i", "i32", "u16", "f", "f32", "s", "pi", "ps", "st", "pst", "zz"}[vChoose(12)]
	}
	var pts []Point
	for i, n := 0, 1+vChoose(vParam("points", 2)); i < n; i++ {
		pts = append(pts, c11Point(typ))
	}
	before := c
	entries := 3
	if vParam("c11containers", 0) == 1 {
		entries = 2 // container fields carry point tags: MergeEdgePoints never touches them
	}
	switch vChoose(entries) {
	case 0:
		vCover("c11: Decode")
		_ = Decode(NodeEdgeChildren{NodeEdge: NodeEdge{ID: "n", Points: pts, EdgePoints: pts}}, &c)
	case 1:
		vCover("c11: MergePoints")
		_ = MergePoints("n", pts, &c)
	case 2:
		vCover("c11: MergeEdgePoints")
		_ = MergeEdgePoints("n", "", pts, &c)
	}
	if typ == "zz" {
		vCover("c11: undeclared type")
		vAssert(c.B == before.B && c.I == before.I && c.S == before.S && c.PI == before.PI && len(c.SI) == len(before.SI) && len(c.M) == len(before.M) && c.PST == before.PST,
			"points of an undeclared type change nothing")
	}
}

func c10Int() int {
	x := vI64()
	vAssume(x >= -(1<<53-1) && x <= 1<<53-1)
	return int(x)
}

func c10Float() float64 {
	f := vF64()
	vAssume(f == f)
	return f
}

func c10SameFloat(a, b float64) bool { return math.Float64bits(a) == math.Float64bits(b) || a == b }

func c10Roundtrip(in vCfg) vCfg {
	ne, err := Encode(in)
	vAssert(err == nil, "encode succeeds")
	var out vCfg
	err = Decode(NodeEdgeChildren{NodeEdge: ne}, &out)
	vAssert(err == nil, "decode of the encoding succeeds")
	return out
}

func c10Merge(a, b vCfg) vCfg {
	got := c10Roundtrip(a)
	pts, err := DiffPoints(a, b)
	vAssert(err == nil, "diff succeeds")
	err = MergePoints("n", pts, &got)
	vAssert(err == nil, "merge of the diff succeeds")
	return got
}

// HarnessC10Scalars: bool, ints, floats, string, pointers to them, edge fields.
func HarnessC10Scalars() {
	grp := vParam("grp", 0)
	mk := func() vCfg {
		c := vCfg{ID: "n", Parent: "p"}
		switch grp {
		case 0: // bool, int, string, edge fields
			c.B, c.I, c.S, c.Role, c.Tomb = vBool(), c10Int(), vStr(vChoose(2)), vStr(vChoose(2)), vBool()
		case 1: // sized integers
			c.I32, c.U16 = vI32(), vU16()
		case 2: // floats
			c.F, c.F32 = c10Float(), vF32()
			vAssume(c.F32 == c.F32)
		case 3: // pointers to scalars
			if vBool() {
				x, s := c10Int(), vStr(vChoose(2))
				c.PI, c.PS = &x, &s
			}
		}
		return c
	}
	same := func(a, b vCfg, edge bool) bool {
		ok := a.B == b.B && a.I == b.I && a.I32 == b.I32 && a.U16 == b.U16 && c10SameFloat(a.F, b.F) && c10SameFloat(float64(a.F32), float64(b.F32)) && a.S == b.S
		ok = ok && (a.PI == nil) == (b.PI == nil) && (a.PS == nil) == (b.PS == nil)
		if a.PI != nil && b.PI != nil {
			ok = ok && *a.PI == *b.PI
		}
		if a.PS != nil && b.PS != nil {
			ok = ok && *a.PS == *b.PS
		}
		if edge {
			ok = ok && a.Role == b.Role && a.Tomb == b.Tomb && a.ID == b.ID && a.Parent == b.Parent
		}
		return ok
	}
	a := mk()
	vAssert(same(c10Roundtrip(a), a, true), "scalars, pointers and edge fields survive Encode/Decode")
	b := mk()
	vAssert(same(c10Merge(a, b), b, false), "merging the diff of two values onto the first gives the second (scalars, pointers)")
	vCover("c10 scalars: done")
}

// HarnessC10Slices: slices and arrays, growing and shrinking.
func HarnessC10Slices() {
	mk := func() vCfg {
		c := vCfg{ID: "n"}
		for i, n := 0, vChoose(vParam("elems", 2)+1); i < n; i++ {
			c.SI = append(c.SI, c10Int())
		}
		for i, n := 0, vChoose(vParam("elems", 2)+1); i < n; i++ {
			c.SS = append(c.SS, vStr(1))
		}
		c.AF = [2]float64{c10Float(), c10Float()}
		return c
	}
	same := func(a, b vCfg) bool {
		if len(a.SI) != len(b.SI) || len(a.SS) != len(b.SS) {
			return false
		}
		for i := range a.SI {
			if a.SI[i] != b.SI[i] {
				return false
			}
		}
		for i := range a.SS {
			if a.SS[i] != b.SS[i] {
				return false
			}
		}
		return c10SameFloat(a.AF[0], b.AF[0]) && c10SameFloat(a.AF[1], b.AF[1])
	}
	a := mk()
	vAssert(same(c10Roundtrip(a), a), "slices and arrays survive Encode/Decode")
	b := mk()
	vAssert(same(c10Merge(a, b), b), "merging the diff gives the second value, including shrinking slices")
	vCover("c10 slices: done")
}

// HarnessC10SliceChain: two diffs applied one after the other to the same
// decoded value (a -> b -> c): the value a diff is applied to may itself be
// the result of earlier merges (a slice that shrank keeps spare capacity).
func HarnessC10SliceChain() {
	mk := func() vCfg {
		c := vCfg{ID: "n"}
		for i, n := 0, vChoose(vParam("chain", 3)+1); i < n; i++ {
			c.SI = append(c.SI, c10Int())
		}
		return c
	}
	same := func(a, b vCfg) bool {
		if len(a.SI) != len(b.SI) {
			return false
		}
		for i := range a.SI {
			if a.SI[i] != b.SI[i] {
				return false
			}
		}
		return true
	}
	a, b, c := mk(), mk(), mk()
	got := c10Roundtrip(a)
	pts, err := DiffPoints(a, b)
	vAssert(err == nil, "diff succeeds")
	err = MergePoints("n", pts, &got)
	vAssert(err == nil && same(got, b), "merging the first diff gives the second value")
	pts, err = DiffPoints(b, c)
	vAssert(err == nil, "second diff succeeds")
	err = MergePoints("n", pts, &got)
	vAssert(err == nil && same(got, c), "merging a further diff into the merged value gives the third value")
	if len(b.SI) < len(a.SI) && len(c.SI) > len(b.SI) {
		vCover("c10 chain: shrink then grow")
	}
	vCover("c10 chain: done")
}

// HarnessC10Limit: slices at the documented size limit (999 and 1000
// elements) survive Encode/Decode, and a diff that grows a slice to the limit
// can be merged.
func HarnessC10Limit() {
	n := 999 + vChoose(2)
	x, y := c10Int(), c10Int()
	a := vCfg{ID: "n"}
	a.SI = make([]int, n)
	for i := range a.SI {
		a.SI[i] = x
	}
	a.SI[n-1] = y
	got := c10Roundtrip(a)
	vAssert(len(got.SI) == n && got.SI[0] == x && got.SI[n/2] == x && got.SI[n-1] == y, "a slice at the documented limit survives Encode/Decode")
	// grow from n-2 elements to n
	b := vCfg{ID: "n", SI: append([]int{}, a.SI[:n-2]...)}
	gb := c10Roundtrip(b)
	pts, err := DiffPoints(b, a)
	vAssert(err == nil && len(pts) == 2, "the diff of a slice grown by two elements has two points")
	err = MergePoints("n", pts, &gb)
	vAssert(err == nil && len(gb.SI) == n && gb.SI[n-1] == y && gb.SI[n-2] == x, "merging a diff that grows a slice to the limit gives the second value")
	vCover("c10 limit: done")
}

// HarnessC10Maps: string-keyed maps, entries added, changed and removed.
func HarnessC10Maps() {
	keys := []string{"k0", "k1", "k2", "k3"}
	mk := func() vCfg {
		c := vCfg{ID: "n"}
		for i := 0; i < vParam("elems", 2); i++ {
			if vBool() {
				if c.M == nil {
					c.M = map[string]int{}
				}
				c.M[keys[i]] = c10Int()
			}
		}
		return c
	}
	same := func(a, b vCfg) bool {
		if len(a.M) != len(b.M) {
			return false
		}
		for _, k := range keys {
			x, okx := a.M[k]
			y, oky := b.M[k]
			if okx != oky || x != y {
				return false
			}
		}
		return true
	}
	a := mk()
	vAssert(same(c10Roundtrip(a), a), "maps survive Encode/Decode")
	b := mk()
	vAssert(same(c10Merge(a, b), b), "merging the diff gives the second value, including removed map entries")
	vCover("c10 maps: done")
}

// HarnessC10Structs: flat struct and pointer to flat struct (becoming nil).
func HarnessC10Structs() {
	mkf := func() vFlat { return vFlat{A: c10Int(), B: vStr(vChoose(2)), C: c10Float()} }
	mk := func() vCfg {
		c := vCfg{ID: "n", ST: mkf()}
		if vBool() {
			f := mkf()
			c.PST = &f
		}
		return c
	}
	sf := func(a, b vFlat) bool { return a.A == b.A && a.B == b.B && c10SameFloat(a.C, b.C) }
	same := func(a, b vCfg) bool {
		if !sf(a.ST, b.ST) || (a.PST == nil) != (b.PST == nil) {
			return false
		}
		return a.PST == nil || sf(*a.PST, *b.PST)
	}
	a := mk()
	vAssert(same(c10Roundtrip(a), a), "flat structs and pointers to them survive Encode/Decode")
	b := mk()
	vAssert(same(c10Merge(a, b), b), "merging the diff gives the second value, including a struct pointer becoming nil")
	vCover("c10 structs: done")
}
