package store

// C01 — newest point wins, whatever the delivery order or batching.
//
// One inductive step on the real writers: from an arbitrary valid set of
// stored rows for a node (resp. edge), one batch of arbitrary points is
// written through the real nodePoints / edgePoints; afterwards the store
// holds, per normalised identity, exactly the newest of (rows + batch), and
// the representation invariant (one row per identity, key never empty) holds
// again. By induction this covers every order, grouping and re-delivery.

import (
	"github.com/simpleiot/simpleiot/data"
)

func init() {
	vRegister("HarnessC01Node", HarnessC01Node)
	vRegister("HarnessC01Edge", HarnessC01Edge)
}

// c01Oracle folds "newest per normalised identity" over stored + batch.
func c01Oracle(stored, batch []data.Point) []data.Point {
	var want []data.Point
	add := func(p data.Point) {
		p.Key = vNormKey(p.Key)
		for i := range want {
			if want[i].Type == p.Type && want[i].Key == p.Key {
				if want[i].Time.Before(p.Time) {
					want[i] = p
				}
				return
			}
		}
		want = append(want, p)
	}
	for _, p := range stored {
		add(p)
	}
	for _, p := range batch {
		add(p)
	}
	return want
}

// c01Distinct assumes the property's quantifier: distinct timestamps per identity.
func c01Distinct(ps []data.Point) {
	for i := range ps {
		for j := i + 1; j < len(ps); j++ {
			if ps[i].Type == ps[j].Type && vNormKey(ps[i].Key) == vNormKey(ps[j].Key) {
				vAssume(!ps[i].Time.Equal(ps[j].Time))
			}
		}
	}
}

func c01Check(got []data.Point, want []data.Point) {
	vAssert(len(got) == len(want), "exactly one point per identity is read back")
	for _, w := range want {
		n := 0
		for _, g := range got {
			if g.Type == w.Type && g.Key == w.Key {
				n++
				vAssert(vSamePoint(g, w), "the point read back is the newest delivered one, with all its fields")
			}
		}
		vAssert(n == 1, "each identity is read back exactly once")
	}
}

func HarnessC01Node() {
	sdb := vNewDB()
	m := vParam("str", 1)
	// the node exists (has an edge) so that hash propagation has something to do
	err := sdb.edgePoints("n1", "root0", data.Points{{Type: data.PointTypeTombstone, Value: 0}, {Type: data.PointTypeNodeType, Text: "x"}})
	vAssume(err == nil)
	var stored []data.Point
	for i, r := 0, vChoose(vParam("rows", 1)+1); i < r; i++ {
		p := vPoint(m)
		vAssume(p.Key != "")
		for _, o := range stored {
			vAssume(!(o.Type == p.Type && o.Key == p.Key))
		}
		stored = append(stored, p)
		vPutNodePoint(sdb, []string{"r0", "r1", "r2"}[i], "n1", p)
	}
	var batch data.Points
	for i, k := 0, 1+vChoose(vParam("batch", 2)); i < k; i++ {
		batch = append(batch, vPoint(m))
	}
	all := append(append([]data.Point{}, stored...), batch...)
	c01Distinct(all)
	in := append(data.Points{}, batch...)

	err = sdb.nodePoints("n1", in)
	vAssert(err == nil, "a batch of storable points is accepted")

	nodes, err := sdb.getNodes(nil, "all", "n1", "", true)
	vAssert(err == nil && len(nodes) == 1, "the node can be read")
	c01Check(nodes[0].Points, c01Oracle(stored, batch))
	for _, r := range vDumpPoints(sdb, "node_points") {
		if r.Owner == "n1" {
			vAssert(r.P.Key != "", "stored keys are never empty")
		}
	}
	vCover("c01 node: done")
}

func HarnessC01Edge() {
	sdb := vNewDB()
	m := vParam("str", 1)
	err := sdb.edgePoints("n1", "root0", data.Points{{Type: data.PointTypeNodeType, Text: "x"}})
	vAssume(err == nil)
	edges := vDumpEdges(sdb)
	eid := ""
	for _, e := range edges {
		if e.Down == "n1" {
			eid = e.ID
		}
	}
	vAssume(eid != "")
	var stored []data.Point
	for i, r := 0, vChoose(vParam("rows", 1)+1); i < r; i++ {
		p := vPoint(m)
		vAssume(p.Key != "" && p.Type != data.PointTypeNodeType)
		for _, o := range stored {
			vAssume(!(o.Type == p.Type && o.Key == p.Key))
		}
		stored = append(stored, p)
		vPutEdgePoint(sdb, []string{"r0", "r1", "r2"}[i], eid, p)
	}
	var batch data.Points
	for i, k := 0, 1+vChoose(vParam("batch", 2)); i < k; i++ {
		p := vPoint(m)
		vAssume(p.Type != data.PointTypeNodeType)
		batch = append(batch, p)
	}
	all := append(append([]data.Point{}, stored...), batch...)
	c01Distinct(all)
	in := append(data.Points{}, batch...)

	err = sdb.edgePoints("n1", "root0", in)
	vAssert(err == nil, "a batch of storable edge points is accepted")

	nodes, err := sdb.getNodes(nil, "root0", "n1", "", true)
	vAssert(err == nil && len(nodes) == 1, "the node can be read")
	c01Check(nodes[0].EdgePoints, c01Oracle(stored, batch))
	vCover("c01 edge: done")
}
