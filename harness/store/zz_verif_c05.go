package store

// C05 — the graph stays a rooted DAG and refused writes leave no trace.
//
// Real code: handleNodePoints, handleEdgePoints, reply, nodePoints,
// edgePoints, updateHash*, process*Upstream, up, client.Decode*Msg,
// SendPoints. Observed: the reply, all four tables, everything published.

import (
	"strings"

	"github.com/nats-io/nats.go"
	"github.com/simpleiot/simpleiot/data"
)

func init() {
	vRegister("HarnessC05Write", HarnessC05Write)
}

type c05Snap struct {
	edges []vEdgeRow
	np    []vPointRow
	ep    []vPointRow
	root  string   // the instance root the store reports
	roots []string // what a reader asking for the root node(s) is given
}

func c05Snapshot(sdb *DbSqlite) c05Snap {
	s := c05Snap{edges: vDumpEdges(sdb), np: vDumpPoints(sdb, "node_points"), ep: vDumpPoints(sdb, "edge_points"), root: sdb.rootNodeID()}
	nodes, err := sdb.getNodes(nil, "root", "all", "", true)
	vAssert(err == nil, "the root listing is readable")
	for _, n := range nodes {
		s.roots = append(s.roots, n.ID)
	}
	return s
}

func c05SamePoints(a, b []vPointRow) bool {
	if len(a) != len(b) {
		return false
	}
	for i := range a {
		if a[i].RowID != b[i].RowID || a[i].Owner != b[i].Owner || !vSamePoint(a[i].P, b[i].P) {
			return false
		}
	}
	return true
}

func c05Same(a, b c05Snap) bool {
	if len(a.edges) != len(b.edges) {
		return false
	}
	for i := range a.edges {
		if a.edges[i] != b.edges[i] {
			return false
		}
	}
	if a.root != b.root || len(a.roots) != len(b.roots) {
		return false
	}
	for i := range a.roots {
		if a.roots[i] != b.roots[i] {
			return false
		}
	}
	return c05SamePoints(a.np, b.np) && c05SamePoints(a.ep, b.ep)
}

// c05Point: an arbitrary point, NaN and infinities included.
func c05Point() data.Point {
	p := vPointShapeAny(0)
	switch vChoose(3) {
	case 1:
		p.Type = data.PointTypeTombstone
		p.Key = ""
	case 2:
		p.Type = data.PointTypeNodeType
		p.Key = ""
	}
	return p
}

func HarnessC05Write() {
	sdb := vNewDB()
	nodes := vParam("nodes", 2)
	g := vGraph(sdb, nodes, vParam("edges", 2), vParam("tomb", 1))
	nc := vConn()
	st := vStore(sdb, nc)
	before := c05Snapshot(sdb)

	ids := append(append([]string{}, c03Nodes[:1+nodes]...), "nx")
	n := ids[vChoose(len(ids))]
	var batch data.Points
	for i, k := 0, 1+vChoose(vParam("batch", 1)); i < k; i++ {
		batch = append(batch, c05Point())
	}
	hasNaN, hasType := false, false
	rootTomb := false
	// the deletion state the batch asks for is that of its newest tombstone
	// point (a batch stands for its newest point per identity; equal
	// timestamps within one identity are outside the property's quantifier)
	var newestTomb *data.Point
	for i := range batch {
		p := batch[i]
		if p.Type == data.PointTypeNodeType {
			hasType = true
			continue
		}
		if p.Value != p.Value {
			hasNaN = true
		}
		if p.Type == data.PointTypeTombstone {
			if newestTomb != nil {
				vAssume(!newestTomb.Time.Equal(p.Time))
			}
			if newestTomb == nil || newestTomb.Time.Before(p.Time) {
				newestTomb = &batch[i]
			}
		}
	}
	if newestTomb != nil && newestTomb.Value == 1 {
		rootTomb = true
	}
	payload, err := batch.ToPb()
	vAssume(err == nil)

	mustRefuse := hasNaN
	edgeWrite := vBool()
	if edgeWrite {
		vCover("c05: edge write")
		ups := append(append([]string{}, ids...), "root")
		parent := ups[vChoose(len(ups))]
		exists := false
		for _, e := range g {
			if e.up == parent && e.down == n {
				exists = true
			}
		}
		if n == parent {
			mustRefuse = true
		}
		if n == "root0" && rootTomb {
			mustRefuse = true
		}
		if !exists {
			if !hasType {
				mustRefuse = true
			}
			// a new edge parent->n must not make n its own ancestor
			if vHas(vAncestors(g, parent, false), n) {
				vCover("c05: cycle-closing edge")
				mustRefuse = true
			}
		}
		st.handleEdgePoints(&nats.Msg{Subject: "p." + n + "." + parent, Reply: "reply", Data: payload})
	} else {
		vCover("c05: node write")
		st.handleNodePoints(&nats.Msg{Subject: "p." + n, Reply: "reply", Data: payload})
	}

	replies, refused, upTraffic := 0, false, false
	for _, e := range vEvents(nc) {
		if e.Subject == "reply" {
			replies++
			if len(e.Data) > 0 {
				refused = true
			}
		}
		if strings.HasPrefix(e.Subject, "up.") {
			upTraffic = true
		}
	}
	vAssert(replies == 1, "every write is answered exactly once")
	if mustRefuse {
		vCover("c05: must refuse")
		vAssert(refused, "a write that would delete the root, close a cycle, lack a node type for a new edge or carry NaN is answered with an error")
	}
	if refused {
		vCover("c05: refused")
		vAssert(c05Same(before, c05Snapshot(sdb)), "a write answered with an error leaves node contents, hashes and the reported instance root unchanged")
		vAssert(!upTraffic, "a write answered with an error is not rebroadcast")
	} else {
		vCover("c05: accepted")
		if vParam("hashes", 0) == 1 {
			c03CheckHashes(sdb, "an accepted write keeps the hashes consistent")
		}
	}

	// the instance keeps answering
	p2 := vPointShape(0)
	pts2 := data.Points{p2}
	pl2, err := pts2.ToPb()
	vAssume(err == nil)
	st.handleNodePoints(&nats.Msg{Subject: "p.root0", Reply: "reply2", Data: pl2})
	ok2 := false
	for _, e := range vEvents(nc) {
		if e.Subject == "reply2" && len(e.Data) == 0 {
			ok2 = true
		}
	}
	vAssert(ok2, "a later write to another node is still answered")
}
