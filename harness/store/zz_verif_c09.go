package store

// C09 (store part) — a login token is issued exactly when e-mail and
// password match a user that is still connected to the root through
// non-deleted edges.
//
// Real code: handleAuthUser, (*DbSqlite).userCheck, getNodes, edges,
// queryPoints. The token signer is a harness Authorizer (the JWT library is
// outside the claim).

import (
	"net/http"

	"github.com/simpleiot/simpleiot/client"
	"github.com/simpleiot/simpleiot/data"
)

func init() {
	vRegister("HarnessC09Login", HarnessC09Login)
	vRegister("HarnessC09Listing", HarnessC09Listing)
}

type c09Auth struct{}

func (c09Auth) NewToken(id string) (string, error)     { return "token-for-" + id, nil }
func (c09Auth) Valid(req *http.Request) (bool, string) { return false, "" }

func vLetter() string {
	s := vStr(1)
	vAssume(s[0] == 'a' || s[0] == 'b')
	return s
}

func HarnessC09Login() {
	sdb := vNewDB()
	for _, t := range []string{"edges", "node_points", "edge_points"} {
		_, err := sdb.db.Exec("DELETE FROM " + t)
		vAssume(err == nil)
	}
	nc := vConn()
	st := vStore(sdb, nc)
	st.authorizer = c09Auth{}

	// tree: root0; group g1 under root0; user u1 placed under root0 and/or g1
	// (moved, mirrored, deleted, re-added, under a deleted group)
	type pl struct {
		id, up, down, typ string
		present           bool
		tomb              int
	}
	edges := []*pl{
		{"e-root", "root", "root0", "device", true, 0},
		{"e-g1", "root0", "g1", "group", vBool(), vChoose(2)},
		{"e-u1a", "root0", "u1", data.NodeTypeUser, vBool(), vChoose(2)},
		{"e-u1b", "g1", "u1", data.NodeTypeUser, vBool(), vChoose(2)},
	}
	t0 := vPointShape(0).Time
	for _, e := range edges {
		if !e.present {
			continue
		}
		vPutEdge(sdb, e.id, e.up, e.down, 0, e.typ)
		vPutEdgePoint(sdb, "ept"+e.id, e.id, data.Point{Type: data.PointTypeTombstone, Key: "0", Time: t0, Value: float64(e.tomb)})
	}
	email, pass := vLetter(), vLetter()
	vPutNodePoint(sdb, "np-email", "u1", data.Point{Type: data.PointTypeEmail, Key: "0", Time: t0, Text: email})
	vPutNodePoint(sdb, "np-pass", "u1", data.Point{Type: data.PointTypePass, Key: "0", Time: t0, Text: pass})

	qEmail, qPass := vLetter(), vLetter()
	vServe(nc, "auth.user", st.handleAuthUser)
	got, err := client.UserCheck(nc, qEmail, qPass)
	if err != nil {
		got = nil
	}

	// oracle: the user is connected to the root through live edges
	live := func(e *pl) bool { return e.present && e.tomb == 0 }
	connected := live(edges[2]) || (live(edges[3]) && live(edges[1]))
	want := email == qEmail && pass == qPass && connected

	hasToken := false
	for _, n := range got {
		if n.Type == data.NodeTypeJWT {
			hasToken = true
			tok, _ := n.Points.Text(data.PointTypeToken, "")
			vAssert(tok == "token-for-u1", "the token is issued for the authenticated user")
		} else {
			vAssert(n.ID == "u1", "only the authenticated user is returned")
		}
	}
	if want {
		vCover("c09: login granted")
		vAssert(hasToken, "a user with matching credentials that is connected to the root through non-deleted edges gets a token")
	} else {
		vCover("c09: login refused")
		vAssert(!hasToken && len(got) == 0, "no token without matching credentials or without a live path to the root")
	}
}

// HarnessC09Listing — a user's node listing contains only the subtrees of the
// places that user is attached to.
//
// Real code: client.GetNodesForUser, client.GetNodes, handleNodesRequest,
// (*DbSqlite).getNodes, data.RemoveDuplicateNodesIDParent.
func HarnessC09Listing() {
	sdb := vNewDB()
	for _, t := range []string{"edges", "node_points", "edge_points"} {
		_, err := sdb.db.Exec("DELETE FROM " + t)
		vAssume(err == nil)
	}
	nc := vConn()
	st := vStore(sdb, nc)
	type pl struct {
		id, up, down, typ string
		present           bool
		tomb              int
	}
	edges := []*pl{
		{"e-root", "root", "root0", "device", true, 0},
		{"e-g1", "root0", "g1", "group", true, vChoose(2)},
		{"e-g2", "root0", "g2", "group", true, 0},
		{"e-x", "g1", "x", "variable", true, vChoose(2)},
		{"e-y", "g2", "y", "variable", true, 0},
		{"e-xx", "x", "xx", "variable", vBool(), 0},
		{"e-ua", "root0", "u1", data.NodeTypeUser, vBool(), vChoose(2)},
		{"e-ub", "g1", "u1", data.NodeTypeUser, vBool(), vChoose(2)},
		{"e-uc", "g2", "u1", data.NodeTypeUser, vBool(), vChoose(2)},
		{"e-v", "g2", "u2", data.NodeTypeUser, true, 0},
	}
	t0 := vPointShape(0).Time
	for _, e := range edges {
		if !e.present {
			continue
		}
		vPutEdge(sdb, e.id, e.up, e.down, 0, e.typ)
		vPutEdgePoint(sdb, "ept"+e.id, e.id, data.Point{Type: data.PointTypeTombstone, Key: "0", Time: t0, Value: float64(e.tomb)})
	}
	vServe(nc, "nodes.*.*", st.handleNodesRequest)

	user := []string{"u1", "u2", "zz"}[vChoose(3)]
	got, err := client.GetNodesForUser(nc, user)
	vAssert(err == nil, "the listing request is answered")

	// oracle: the places the user is attached to (live placements) and everything below them through live edges
	live := func(e *pl) bool { return e.present && e.tomb == 0 }
	var allowed []string
	for _, e := range edges {
		if e.down == user && live(e) {
			allowed = append(allowed, e.up)
		}
	}
	for changed := true; changed; {
		changed = false
		for _, e := range edges {
			if live(e) && vHas(allowed, e.up) && !vHas(allowed, e.down) {
				allowed = append(allowed, e.down)
				changed = true
			}
		}
	}
	for _, n := range got {
		vAssert(vHas(allowed, n.ID), "a user's node listing contains only the subtrees of the places that user is attached to")
		del, _ := n.IsTombstone()
		vAssert(!del, "deleted placements are not listed")
	}
	if len(allowed) == 0 {
		vCover("c09 listing: user attached nowhere")
		vAssert(len(got) == 0, "a user attached nowhere is given nothing")
	} else {
		vCover("c09 listing: user attached somewhere")
		// the places themselves are in the listing when they are reachable placements
		for _, e := range edges {
			if e.down == user && live(e) {
				vAssert(len(got) > 0, "an attached user is given a non-empty listing")
			}
		}
	}
	if len(got) > 0 && len(allowed) < 7 {
		vCover("c09 listing: proper subset of the tree")
	}
}
