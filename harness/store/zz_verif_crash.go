//go:build !gosym

package store

// Native twin of the crash model: vCrashRun runs f in a child process (this
// test binary re-executed with the same inputs) that exits, without any
// cleanup, immediately before the k-th SQL statement or COMMIT issued after
// vCrashArm(). The statement boundary hook is a one-line patch of the
// modernc.org/sqlite driver injected by go test -overlay (bin/check).

import (
	"os"
	"os/exec"
	"strings"

	"modernc.org/sqlite"
)

var (
	vCrashK     = -1
	vCrashChild = os.Getenv("VERIF_PHASE") == "child"
)

func vCrashRun(k int, f func()) bool {
	if k < 0 {
		f()
		return false
	}
	if vCrashChild {
		vCrashK = k
		f()
		os.Exit(0)
	}
	cmd := exec.Command(os.Args[0], "-test.run", "^TestVerifReplay$", "-test.count=1")
	cmd.Env = append(os.Environ(), "VERIF_PHASE=child", "VERIF_FILE="+vSharedFile)
	cmd.Dir, _ = os.Getwd()
	err := cmd.Run()
	if ee, ok := err.(*exec.ExitError); ok && ee.ExitCode() == 3 {
		return true
	}
	if err != nil {
		panic(vDesync{"crash child: " + err.Error()})
	}
	return false
}

func vCrashArm() {
	if !vCrashChild || vCrashK < 0 {
		return
	}
	left := vCrashK
	sqlite.VerifHook = func(sql string) {
		if len(sql) >= 6 && strings.EqualFold(sql[:6], "pragma") {
			// connection set-up of the database/sql pool (DSN pragmas), not a statement of the code under test
			return
		}
		if left == 0 {
			os.Exit(3) // process death: no deferred calls, no rollback, no close
		}
		left--
	}
}

func vStash(name string, data []byte) {
	_ = os.WriteFile(vSharedFile+"."+name, data, 0o644)
}

func vUnstash(name string) []byte {
	b, _ := os.ReadFile(vSharedFile + "." + name)
	return b
}
