package store

// Graph builder shared by the handler harnesses (C05, C06, C04): a store whose
// edge table is an arbitrary small DAG below root0, with arbitrary tombstone
// counts on the edges.

import (
	"github.com/nats-io/nats.go"
	"github.com/simpleiot/simpleiot/client"
	"github.com/simpleiot/simpleiot/data"
)

type gEdge struct {
	id, up, down string
	tomb         int
}

// vGraph wipes the freshly initialised store and inserts up to maxExtra of
// the candidate edges among root0,n1..n(nodes); tombstone counts 0..tombMax.
func vGraph(sdb *DbSqlite, nodes, maxExtra, tombMax int) []gEdge {
	for _, t := range []string{"edges", "node_points", "edge_points"} {
		_, err := sdb.db.Exec("DELETE FROM " + t)
		vAssume(err == nil)
	}
	g := []gEdge{{"e-root", "root", "root0", 0}}
	present := c03Pick(nodes, maxExtra)
	for i, pr := range c03Pairs {
		if !present[i] {
			continue
		}
		up, down := c03Nodes[pr[0]], c03Nodes[pr[1]]
		g = append(g, gEdge{"e" + up + "-" + down, up, down, vChoose(tombMax + 1)})
	}
	for _, e := range g {
		vPutEdge(sdb, e.id, e.up, e.down, 0, "x")
		vPutEdgePoint(sdb, "ept"+e.id, e.id, data.Point{Type: data.PointTypeTombstone, Key: "0", Time: vPointShape(0).Time, Value: float64(e.tomb)})
	}
	// consistent hashes
	edges, want := c03RefHashes(sdb)
	for i := range edges {
		vSetEdgeHash(sdb, edges[i].ID, want[i])
	}
	return g
}

// vStore wraps the database in a Store talking to nc.
func vStore(sdb *DbSqlite, nc *nats.Conn) *Store {
	return &Store{
		nc:                       nc,
		db:                       sdb,
		subscriptions:            map[string]*nats.Subscription{},
		metricCycleNodePoint:     client.NewMetric(nc, "", data.PointTypeMetricNatsCycleNodePoint, reportMetricsPeriod),
		metricCycleNodeEdgePoint: client.NewMetric(nc, "", data.PointTypeMetricNatsCycleNodeEdgePoint, reportMetricsPeriod),
		metricCycleNode:          client.NewMetric(nc, "", data.PointTypeMetricNatsCycleNode, reportMetricsPeriod),
		metricCycleNodeChildren:  client.NewMetric(nc, "", data.PointTypeMetricNatsCycleNodeChildren, reportMetricsPeriod),
	}
}

// vAncestors: nodes reachable upwards from n (n itself included) through
// edges; liveOnly skips edges with an odd tombstone count.
func vAncestors(g []gEdge, n string, liveOnly bool) []string {
	set := []string{n}
	for changed := true; changed; {
		changed = false
		for _, e := range g {
			if liveOnly && e.tomb%2 != 0 {
				continue
			}
			in, have := false, false
			for _, s := range set {
				if s == e.down {
					in = true
				}
				if s == e.up {
					have = true
				}
			}
			if in && !have {
				set = append(set, e.up)
				changed = true
			}
		}
	}
	return set
}

func vHas(set []string, s string) bool {
	for _, x := range set {
		if x == s {
			return true
		}
	}
	return false
}
