package store

// C04 — a crash at any instant loses no acknowledged write and corrupts nothing.
//
// The part of the property the repository's code is responsible for: which
// statements run inside which transaction, and that the writer is answered
// only after Commit. The process dies immediately before an arbitrary SQL
// statement or COMMIT of one write (or of first-time initialisation); the
// store is then re-opened on the same file by the real NewSqliteDb.
// What SQLite itself guarantees (a committed WAL transaction survives process
// death, an uncommitted one vanishes) is the relational model's contract in
// the engine and real SQLite + a real killed process natively.

import (
	"github.com/nats-io/nats.go"
	"github.com/simpleiot/simpleiot/data"
)

func init() {
	vRegister("HarnessC04Write", HarnessC04Write)
	vRegister("HarnessC04Init", HarnessC04Init)
}

type c04Dump struct {
	edges []vEdgeRow
	np    []vPointRow
	ep    []vPointRow
}

func c04Snapshot(sdb *DbSqlite) c04Dump {
	return c04Dump{vDumpEdges(sdb), vDumpPoints(sdb, "node_points"), vDumpPoints(sdb, "edge_points")}
}

// c04SameRows compares content modulo row ids and order (row and edge ids are
// fresh UUIDs in every run).
func c04SamePoints(a, b []vPointRow, edgeOf func([]vEdgeRow, string) string, ea, eb []vEdgeRow) bool {
	if len(a) != len(b) {
		return false
	}
	for _, x := range a {
		found := false
		for _, y := range b {
			ox, oy := x.Owner, y.Owner
			if edgeOf != nil {
				ox, oy = edgeOf(ea, ox), edgeOf(eb, oy)
			}
			if ox == oy && vSamePoint(x.P, y.P) {
				found = true
			}
		}
		if !found {
			return false
		}
	}
	return true
}

func c04EdgeKey(es []vEdgeRow, id string) string {
	for _, e := range es {
		if e.ID == id {
			return e.Up + ">" + e.Down
		}
	}
	return "?"
}

func c04Same(a, b c04Dump) bool {
	if len(a.edges) != len(b.edges) {
		return false
	}
	for _, x := range a.edges {
		found := false
		for _, y := range b.edges {
			if x.Up == y.Up && x.Down == y.Down && x.Type == y.Type && x.Hash == y.Hash {
				found = true
			}
		}
		if !found {
			return false
		}
	}
	return c04SamePoints(a.np, b.np, nil, nil, nil) && c04SamePoints(a.ep, b.ep, c04EdgeKey, a.edges, b.edges)
}

type c04Plan struct {
	shape  int
	tombs  []int
	edge   bool
	node   string
	parent string
	batch  data.Points
}

// c04Build creates the store on file and the pre-state of the plan.
func c04Build(file string, pl *c04Plan) (*DbSqlite, *Store, *nats.Conn) {
	sdb, err := NewSqliteDb(file, "root0")
	vAssume(err == nil)
	for _, t := range []string{"edges", "node_points", "edge_points"} {
		_, err := sdb.db.Exec("DELETE FROM " + t)
		vAssume(err == nil)
	}
	t0 := vInstant(19886, 0, 0, 0)
	edges := []gEdge{{"e-root", "root", "root0", 0}}
	for i, pi := range c03Shapes[pl.shape] {
		pr := c03Pairs[pi]
		edges = append(edges, gEdge{"e" + c03Nodes[pr[0]] + "-" + c03Nodes[pr[1]], c03Nodes[pr[0]], c03Nodes[pr[1]], pl.tombs[i]})
	}
	for _, e := range edges {
		vPutEdge(sdb, e.id, e.up, e.down, 0, "x")
		vPutEdgePoint(sdb, "ept"+e.id, e.id, data.Point{Type: data.PointTypeTombstone, Key: "0", Time: t0, Value: float64(e.tomb)})
	}
	vPutNodePoint(sdb, "np1", "n1", data.Point{Type: "v", Key: "0", Time: t0, Value: 1})
	es, want := c03RefHashes(sdb)
	for i := range es {
		vSetEdgeHash(sdb, es[i].ID, want[i])
	}
	nc := vConn()
	return sdb, vStore(sdb, nc), nc
}

func c04Op(st *Store, pl *c04Plan) {
	payload, err := pl.batch.ToPb()
	vAssume(err == nil)
	if pl.edge {
		st.handleEdgePoints(&nats.Msg{Subject: "p." + pl.node + "." + pl.parent, Reply: "reply", Data: payload})
	} else {
		st.handleNodePoints(&nats.Msg{Subject: "p." + pl.node, Reply: "reply", Data: payload})
	}
}

func HarnessC04Write() {
	// the plan is drawn first so that every process (and every run) sees the same one
	pl := &c04Plan{shape: vChoose(vParam("shapes", 5))}
	for range c03Shapes[pl.shape] {
		pl.tombs = append(pl.tombs, vChoose(2))
	}
	pl.edge = vBool()
	pl.node = []string{"n1", "n2", "n3"}[vChoose(3)]
	pl.parent = []string{"root0", "n1", "n2"}[vChoose(3)]
	p := vPointShape(0)
	vAssume(p.Type != data.PointTypeNodeType)
	pl.batch = data.Points{p}
	if pl.edge {
		pl.batch = append(pl.batch, data.Point{Type: data.PointTypeNodeType, Text: "x", Time: p.Time})
	}
	k := vChoose(vParam("stmts", 24)+1) - 1 // -1: no crash

	// reference runs on private files: the state before and after the complete write
	sdbA, _, _ := c04Build(vTempFile2(), pl)
	pre := c04Snapshot(sdbA)
	sdbB, stB, ncB := c04Build(vTempFile2(), pl)
	c04Op(stB, pl)
	post := c04Snapshot(sdbB)
	accepted := false
	for _, e := range vEvents(ncB) {
		if e.Subject == "reply" && len(e.Data) == 0 {
			accepted = true
		}
	}

	// the run that dies
	file := vTempFile()
	died := vCrashRun(k, func() {
		sdb, st, _ := c04Build(file, pl)
		vStash("key", sdb.meta.JWTKey)
		vCrashArm()
		c04Op(st, pl)
	})

	// restart on the same file
	sdb2, err := NewSqliteDb(file, "other-root")
	vAssert(err == nil, "the store file opens again after the process died")
	vAssert(sdb2.meta.RootID == "root0", "the instance root survives")
	vAssert(vBytesEq(sdb2.meta.JWTKey, vUnstash("key")) && len(sdb2.meta.JWTKey) == 20, "the token-signing key survives")
	rec := c04Snapshot(sdb2)
	if died {
		vCover("c04: died inside the write")
		vAssert(c04Same(rec, pre) || c04Same(rec, post), "a write batch is visible either completely or not at all")
	} else {
		vCover("c04: write completed")
		vAssert(c04Same(rec, post), "a completed (acknowledged or refused) write is fully there after restart")
	}
	if accepted {
		vCover("c04: accepted write")
	}
	c03CheckHashes(sdb2, "points and hashes are never out of step after a restart")
}

// HarnessC04Init: the process dies during first-time initialisation, with a
// configured root id or (the server's default) a generated one.
func HarnessC04Init() {
	rid := []string{"root0", ""}[vChoose(2)]
	k := vChoose(vParam("istmts", 45)+1) - 1
	file := vTempFile()
	died := vCrashRun(k, func() {
		vCrashArm()
		_, _ = NewSqliteDb(file, rid)
	})
	sdb, err := NewSqliteDb(file, rid)
	vAssert(err == nil, "initialisation can be completed after a crash at any point of first-time initialisation")
	root := sdb.meta.RootID
	vAssert(root != "" && (rid == "" || root == rid) && len(sdb.meta.JWTKey) == 20, "root id and signing key are set after recovery")
	sdb3, err := NewSqliteDb(file, "another")
	vAssert(err == nil && sdb3.meta.RootID == root && vBytesEq(sdb3.meta.JWTKey, sdb.meta.JWTKey), "a further restart keeps root id and signing key")
	roots, err := sdb3.getNodes(nil, "root", "all", "", false)
	vAssert(err == nil && len(roots) == 1 && roots[0].ID == root, "the root node is readable")
	// one instance root, nothing left over from the run that died
	es := vDumpEdges(sdb3)
	nRoot := 0
	for _, e := range es {
		if e.Up == "root" {
			nRoot++
			vAssert(e.Down == root, "the only root placement is the instance root")
		} else {
			attached := false
			for _, f := range es {
				if f.Down == e.Up {
					attached = true
				}
			}
			vAssert(attached, "no placement is left dangling by the run that died")
		}
	}
	vAssert(nRoot == 1, "there is exactly one instance root after recovery")
	users, err := sdb3.userCheck("admin@admin.com", "admin")
	vAssert(err == nil, "the user table is readable")
	_ = users
	c03CheckHashes(sdb3, "hashes are consistent after recovery from a crash during initialisation")
	if died {
		vCover("c04 init: died")
	} else {
		vCover("c04 init: completed")
	}
	if rid == "" {
		vCover("c04 init: generated root id")
	}
}
