//go:build gosym

package store

func vCrashRun(k int, f func()) bool  { return false }
func vCrashArm()                      {}
func vStash(name string, data []byte) {}
func vUnstash(name string) []byte     { return nil }
