package store

// Shared helpers of the store harnesses: a fresh store on a private file,
// direct row injection through database/sql (so that the pre-state of a step
// is an arbitrary valid state, not just states some test history reaches) and
// an independent dump of all tables.

import (
	"time"

	"github.com/simpleiot/simpleiot/data"
)

const insPoint = `(id, %s, type, key, time, idx, value, text, data, tombstone, origin) VALUES(?, ?, ?, ?, ?, ?, ?, ?, ?, ?, ?)`

func vNewDB() *DbSqlite {
	sdb, err := NewSqliteDb(vTempFile(), "root0")
	vAssume(err == nil)
	return sdb
}

func vPutNodePoint(sdb *DbSqlite, rowID, nodeID string, p data.Point) {
	_, err := sdb.db.Exec(`INSERT INTO node_points(id, node_id, type, key, time, idx, value, text, data, tombstone, origin) VALUES(?, ?, ?, ?, ?, ?, ?, ?, ?, ?, ?)`,
		rowID, nodeID, p.Type, p.Key, p.Time.UnixNano(), 0, p.Value, p.Text, p.Data, p.Tombstone, p.Origin)
	vAssume(err == nil)
}

func vPutEdgePoint(sdb *DbSqlite, rowID, edgeID string, p data.Point) {
	_, err := sdb.db.Exec(`INSERT INTO edge_points(id, edge_id, type, key, time, idx, value, text, data, tombstone, origin) VALUES(?, ?, ?, ?, ?, ?, ?, ?, ?, ?, ?)`,
		rowID, edgeID, p.Type, p.Key, p.Time.UnixNano(), 0, p.Value, p.Text, p.Data, p.Tombstone, p.Origin)
	vAssume(err == nil)
}

func vPutEdge(sdb *DbSqlite, id, up, down string, hash uint32, typ string) {
	_, err := sdb.db.Exec(`INSERT INTO edges(id, up, down, hash, type) VALUES (?, ?, ?, ?, ?)`, id, up, down, hash, typ)
	vAssume(err == nil)
}

func vSetEdgeHash(sdb *DbSqlite, id string, hash uint32) {
	_, err := sdb.db.Exec(`UPDATE edges SET hash = ? WHERE id = ?`, hash, id)
	vAssume(err == nil)
}

type vEdgeRow struct {
	ID, Up, Down, Type string
	Hash               uint32
}

type vPointRow struct {
	RowID, Owner string
	P            data.Point
}

func vDumpEdges(sdb *DbSqlite) []vEdgeRow {
	rows, err := sdb.db.Query("SELECT * FROM edges")
	vAssume(err == nil)
	defer rows.Close()
	var out []vEdgeRow
	for rows.Next() {
		var e vEdgeRow
		err := rows.Scan(&e.ID, &e.Up, &e.Down, &e.Hash, &e.Type)
		vAssert(err == nil, "edge rows are readable")
		out = append(out, e)
	}
	return out
}

func vDumpPoints(sdb *DbSqlite, table string) []vPointRow {
	rows, err := sdb.db.Query("SELECT * FROM " + table)
	vAssume(err == nil)
	defer rows.Close()
	var out []vPointRow
	for rows.Next() {
		var r vPointRow
		var ns int64
		var idx float32
		err := rows.Scan(&r.RowID, &r.Owner, &r.P.Type, &r.P.Key, &ns, &idx, &r.P.Value, &r.P.Text, &r.P.Data, &r.P.Tombstone, &r.P.Origin)
		vAssert(err == nil, "point rows are readable")
		r.P.Time = time.Unix(0, ns)
		out = append(out, r)
	}
	return out
}

// vName: a string of 0..max bytes over {'0', 'a'}
func vName(max int) string {
	s := vStr(vChoose(max + 1))
	for i := 0; i < len(s); i++ {
		vAssume(s[i] == '0' || s[i] == 'a')
	}
	return s
}

// vFixName: a string of exactly n bytes over {'0', 'a'}, or (parameter
// "alpha" = 1) over all printable ASCII characters
func vFixName(n int) string {
	s := vStr(n)
	for i := 0; i < len(s); i++ {
		if vParam("alpha", 0) == 1 {
			vAssume(s[i] >= 0x20 && s[i] < 0x7f)
		} else {
			vAssume(s[i] == '0' || s[i] == 'a')
		}
	}
	return s
}

// (type length, key length) shapes: the first four are all lengths 0..1, the
// last two make ("ab","") and ("","ab") possible next to ("a","b").
var vShapes = [][2]int{{1, 1}, {1, 0}, {0, 1}, {0, 0}, {2, 0}, {0, 2}}

// vPoint: an arbitrary storable point (any float64 except NaN); strMax 1
// draws from the first four shapes, 2 from all six.
func vPoint(strMax int) data.Point {
	n := 4
	if strMax >= 2 {
		n = 6
	}
	return vPointShape(vChoose(n))
}

// vPointShape: an arbitrary storable point whose type and key have the
// lengths of vShapes[shape].
func vPointShape(shape int) data.Point {
	sh := vShapes[shape]
	p := data.Point{
		Type:      vFixName(sh[0]),
		Key:       vFixName(sh[1]),
		Time:      time.Unix(0, vI64()),
		Value:     vF64(),
		Text:      vStr(1),
		Tombstone: int(vI32()),
		Origin:    vStr(1),
		Data:      vBytes(1),
	}
	vAssume(p.Value == p.Value)
	return p
}

// vPointShapeAny: like vPointShape but the value may be any float64 (NaN too).
func vPointShapeAny(shape int) data.Point {
	sh := vShapes[shape]
	return data.Point{
		Type:      vFixName(sh[0]),
		Key:       vFixName(sh[1]),
		Time:      time.Unix(0, vI64()),
		Value:     vF64(),
		Text:      vStr(1),
		Tombstone: int(vI32()),
		Origin:    vStr(1),
		Data:      vBytes(1),
	}
}

func vNormKey(k string) string {
	if k == "" {
		return "0"
	}
	return k
}

func vBytesEq(a, b []byte) bool {
	if len(a) != len(b) {
		return false
	}
	for i := range a {
		if a[i] != b[i] {
			return false
		}
	}
	return true
}

// vSamePoint: all fields equal (value by ==, as a reader compares it).
func vSamePoint(a, b data.Point) bool {
	return a.Type == b.Type && a.Key == b.Key && a.Time.Equal(b.Time) && a.Value == b.Value &&
		a.Text == b.Text && vBytesEq(a.Data, b.Data) && a.Tombstone == b.Tombstone && a.Origin == b.Origin
}
