package store

// C06 — every accepted change is rebroadcast to every live ancestor.
//
// Real code: handleNodePoints / handleEdgePoints up to and including
// processPointsUpstream / processEdgePointsUpstream, (*DbSqlite).up,
// client.SendPoints and the writers. Observed: everything published on up.*.

import (
	"strings"

	"github.com/nats-io/nats.go"
	"github.com/simpleiot/simpleiot/data"
)

func init() {
	vRegister("HarnessC06Rebroadcast", HarnessC06Rebroadcast)
}

func HarnessC06Rebroadcast() {
	sdb := vNewDB()
	nodes := vParam("nodes", 2)
	g := vGraph(sdb, nodes, vParam("edges", 2), vParam("tomb", 2))
	nc := vConn()
	st := vStore(sdb, nc)

	// the written node: one that has at least one placement
	n := c03Nodes[1+vChoose(nodes)]
	var parents []string
	for _, e := range g {
		if e.down == n {
			parents = append(parents, e.up)
		}
	}
	if len(parents) == 0 {
		return
	}
	var batch data.Points
	for i, k := 0, 1+vChoose(vParam("batch", 1)); i < k; i++ {
		p := vPointShape(0)
		vAssume(p.Type != data.PointTypeNodeType && p.Type != data.PointTypeTombstone)
		batch = append(batch, p)
	}
	for i := range batch {
		for j := i + 1; j < len(batch); j++ {
			vAssume(!(batch[i].Type == batch[j].Type && batch[i].Key == batch[j].Key))
		}
	}
	payload, err := batch.ToPb()
	vAssume(err == nil)
	edgeWrite := vBool()
	var want []string
	var prefix string
	if edgeWrite {
		vCover("c06: edge points")
		parent := parents[vChoose(len(parents))]
		st.handleEdgePoints(&nats.Msg{Subject: "p." + n + "." + parent, Reply: "reply", Data: payload})
		want = vAncestors(g, n, false)
		prefix = "." + n + "." + parent
	} else {
		vCover("c06: node points")
		st.handleNodePoints(&nats.Msg{Subject: "p." + n, Reply: "reply", Data: payload})
		want = vAncestors(g, n, true)
		prefix = "." + n
	}
	ev := vEvents(nc)
	acked := false
	seen := make([]bool, len(want))
	for _, e := range ev {
		if e.Subject == "reply" {
			vAssert(len(e.Data) == 0, "an acceptable write is acknowledged without error")
			acked = true
			continue
		}
		if !strings.HasPrefix(e.Subject, "up.") {
			continue
		}
		ok := false
		for i, a := range want {
			if e.Subject == "up."+a+prefix {
				ok = true
				seen[i] = true
			}
		}
		vAssert(ok, "never republished on the subject of a node that is not an ancestor of the written node")
		ps, derr := data.PbDecodePoints(e.Data)
		vAssert(derr == nil && len(ps) == len(batch), "the republished batch has the written points")
		for i := range batch {
			vAssert(ps[i].Type == batch[i].Type && ps[i].Key == batch[i].Key && ps[i].Value == batch[i].Value && ps[i].Text == batch[i].Text && ps[i].Time.Equal(batch[i].Time), "the republished points are the written points, in order")
		}
	}
	vAssert(acked, "the writer is answered")
	for i := range want {
		vAssert(seen[i], "republished on the subject of the node itself, of every ancestor reachable through the relevant edges and of the root sentinel")
	}
}
