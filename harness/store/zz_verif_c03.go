package store

// C03 — stored hashes always equal the Merkle hash of current content.
//
// Inductive step: an arbitrary small graph whose stored hashes satisfy the
// definition (hash(e) = XOR CRC(node points of e.down) ^ XOR CRC(edge points
// of e) ^ XOR hash(child edges)), one write through the real writers, and
// afterwards every stored hash again equals the definition recomputed here
// from an independent dump of the tables; store verification finds nothing.

import (
	"math"

	"github.com/simpleiot/simpleiot/data"
)

func init() {
	vRegister("HarnessC03Write", HarnessC03Write)
	vRegister("HarnessC03CRC", HarnessC03CRC)
}

var c03Nodes = []string{"root0", "n1", "n2", "n3"}

// candidate edges (up index < down index keeps the graph acyclic)
var c03Pairs = [][2]int{{0, 1}, {0, 2}, {1, 2}, {0, 3}, {1, 3}, {2, 3}}

// named shapes (indexes into c03Pairs): nothing, one child, chain, siblings,
// mirror (n2 under root0 and n1), diamond (n3 under n1 and n2), long chain
var c03Shapes = [][]int{{}, {0}, {0, 2}, {0, 1}, {0, 1, 2}, {0, 1, 4, 5}, {0, 2, 5}}

// c03Pick decides which candidate edges exist: either an arbitrary subset of
// up to maxExtra candidates among the first `nodes` nodes, or (parameter
// "shapes" = k > 0) one of the first k named shapes.
func c03Pick(nodes, maxExtra int) []bool {
	present := make([]bool, len(c03Pairs))
	if k := vParam("shapes", 0); k > 0 {
		for _, i := range c03Shapes[vChoose(k)] {
			present[i] = true
		}
		return present
	}
	extra := 0
	for i, pr := range c03Pairs {
		if pr[1] > nodes || extra >= maxExtra || !vBool() {
			continue
		}
		present[i] = true
		extra++
	}
	return present
}

// c03RefHashes recomputes every edge hash from a dump of the tables.
func c03RefHashes(sdb *DbSqlite) (edges []vEdgeRow, want []uint32) {
	edges = vDumpEdges(sdb)
	np := vDumpPoints(sdb, "node_points")
	ep := vDumpPoints(sdb, "edge_points")
	want = make([]uint32, len(edges))
	done := make([]bool, len(edges))
	var calc func(i int) uint32
	calc = func(i int) uint32 {
		if done[i] {
			return want[i]
		}
		var h uint32
		for _, r := range np {
			if r.Owner == edges[i].Down {
				h ^= r.P.CRC()
			}
		}
		for _, r := range ep {
			if r.Owner == edges[i].ID {
				h ^= r.P.CRC()
			}
		}
		for j := range edges {
			if edges[j].Up == edges[i].Down {
				h ^= calc(j)
			}
		}
		want[i], done[i] = h, true
		return h
	}
	for i := range edges {
		calc(i)
	}
	return
}

func c03CheckHashes(sdb *DbSqlite, msg string) {
	edges, want := c03RefHashes(sdb)
	for i := range edges {
		vAssert(edges[i].Hash == want[i], msg)
	}
}

// c03Graph wipes the freshly initialised store and builds an arbitrary DAG
// below root0 with consistent hashes. The placements of node `focus` (the
// node about to be written) may carry an extra edge point, and the first
// point of every node has a plain one-letter identity, so that the write can
// also hit an existing identity with an older, equal or newer time.
func c03Graph(sdb *DbSqlite, maxExtra, ptsPerNode, focus int) (present []bool) {
	for _, t := range []string{"edges", "node_points", "edge_points"} {
		_, err := sdb.db.Exec("DELETE FROM " + t)
		vAssume(err == nil)
	}
	vPutEdge(sdb, "e-root", "root", "root0", 0, "device")
	vPutEdgePoint(sdb, "ep-root", "e-root", data.Point{Type: data.PointTypeTombstone, Key: "0", Time: vPointShape(0).Time})
	present = c03Pick(vParam("nodes", 2), maxExtra)
	row := 0
	for i, pr := range c03Pairs {
		if !present[i] {
			continue
		}
		id := "e" + c03Nodes[pr[0]] + "-" + c03Nodes[pr[1]]
		vPutEdge(sdb, id, c03Nodes[pr[0]], c03Nodes[pr[1]], 0, "x")
		tomb := data.Point{Type: data.PointTypeTombstone, Key: "0", Time: vPointShape(0).Time, Value: float64(vChoose(1 + vParam("tombmax", 1)))}
		vPutEdgePoint(sdb, "ept"+id, id, tomb)
		if pr[1] == focus && vParam("epts", 1) == 1 && vBool() {
			ep := vPointShape(0)
			vAssume(math.Float64bits(ep.Value) != 1<<63)
			vPutEdgePoint(sdb, "epx"+id, id, ep)
		}
	}
	for _, n := range c03Nodes[:1+vParam("nodes", 2)] {
		cnt := ptsPerNode
		if vParam("nptsfix", 0) == 0 {
			cnt = vChoose(ptsPerNode + 1)
		}
		for k := 0; k < cnt; k++ {
			p := vPointShape(0)
			vAssume(math.Float64bits(p.Value) != 1<<63)                                // -0.0 cannot be in a REAL column
			if k > 0 {
				p.Type = p.Type + "1" // distinct identities within the node
			}
			vPutNodePoint(sdb, "np"+n+[]string{"0", "1"}[k], n, p)
			row++
		}
	}
	// make the stored hashes satisfy the definition
	edges, want := c03RefHashes(sdb)
	for i := range edges {
		vSetEdgeHash(sdb, edges[i].ID, want[i])
	}
	return present
}

func HarnessC03Write() {
	sdb := vNewDB()
	node := 1 + vChoose(vParam("nodes", 2))
	id := c03Nodes[node]
	present := c03Graph(sdb, vParam("edges", 2), vParam("npts", 1), node)
	c03CheckHashes(sdb, "harness pre-state satisfies the hash definition")

	var batch data.Points
	for i, k := 0, 1+vChoose(vParam("batch", 1)); i < k; i++ {
		p := vPoint(1)
		if i == 0 && vParam("del", 1) == 1 && vBool() {
			// a deletion / un-deletion with an arbitrary (possibly out-of-date) time
			p.Type, p.Key, p.Value = data.PointTypeTombstone, []string{"", "0"}[vChoose(2)], float64(vChoose(2))
			vCover("c03: tombstone write")
		}
		batch = append(batch, p)
	}
	for i := range batch {
		for j := i + 1; j < len(batch); j++ {
			vAssume(!(batch[i].Type == batch[j].Type && vNormKey(batch[i].Key) == vNormKey(batch[j].Key) && batch[i].Time.Equal(batch[j].Time)))
		}
	}
	var err error
	// placements of the node that exist / that could be added
	var have, free []int
	for i, pr := range c03Pairs {
		if pr[1] == node {
			if present[i] {
				have = append(have, pr[0])
			} else {
				free = append(free, pr[0])
			}
		}
	}
	op := vChoose(3)
	switch {
	case op == 0:
		vCover("c03: node points")
		err = sdb.nodePoints(id, batch)
	case op == 1 && len(have) > 0:
		vCover("c03: edge points on an existing edge")
		err = sdb.edgePoints(id, c03Nodes[have[vChoose(len(have))]], batch)
	case op == 2 && len(free) > 0:
		// a new placement (possibly above a populated subtree, possibly a mirror)
		vCover("c03: new edge")
		if vBool() {
			// a placement created by the mandatory node-type point alone
			batch = nil
			vCover("c03: new edge, type only")
		}
		batch = append(batch, data.Point{Type: data.PointTypeNodeType, Text: "x"})
		err = sdb.edgePoints(id, c03Nodes[free[vChoose(len(free))]], batch)
	default:
		return
	}
	vAssert(err == nil, "a storable write is accepted")
	c03CheckHashes(sdb, "after a write every stored hash equals the Merkle hash of current content")

	before := vDumpEdges(sdb)
	err = sdb.verifyNodeHashes(true)
	vAssert(err == nil, "store verification runs")
	after := vDumpEdges(sdb)
	vAssert(len(before) == len(after), "verification does not add or remove edges")
	for i := range before {
		vAssert(before[i].Hash == after[i].Hash, "store verification finds nothing to repair")
	}
}

// HarnessC03CRC: a point's checksum depends on exactly time, type, key, text
// and value; node-type points contribute nothing.
func HarnessC03CRC() {
	a := vPoint(1)
	b := a
	b.Data = vBytes(1)
	b.Tombstone = int(vI32())
	b.Origin = vStr(1)
	vAssert(a.CRC() == b.CRC(), "checksum ignores data, tombstone and origin")
	nt := vPoint(1)
	nt.Type = data.PointTypeNodeType
	vAssert(nt.CRC() == 0, "node-type points contribute 0")
	vCover("c03 crc: done")
}
