package api

// Native bodies of the harness API. The symbolic engine intercepts every
// v* function by name and never executes these bodies; the native twin
// (go test -overlay) executes them, drawing the values the solver found
// from the JSON file named by VERIF_REPLAY.

import (
	"encoding/json"
	"fmt"
	"math"
	"os"
	"time"
)

type vInput struct {
	Kind string   `json:"kind"`
	Vals []uint64 `json:"vals"`
}

type vReplayFile struct {
	Inputs []vInput       `json:"inputs"`
	Params map[string]int `json:"params"`
}

var (
	vFile      vReplayFile
	vPos       int
	vLoaded    bool
	vHarnesses = map[string]func(){}
	vObsLog    []string
	vCleanups  []func()
)

// vSharedFile is the first file name handed out; a crash child process
// (VERIF_FILE set) reuses its parent's name.
var vSharedFile string

// vTempFile returns the name of a fresh private file (removed after the run).
func vTempFile() string {
	if f := os.Getenv("VERIF_FILE"); f != "" && vSharedFile == "" {
		vSharedFile = f
		return f
	}
	d, err := os.MkdirTemp("", "verif-native-")
	if err != nil {
		panic(vDesync{"tempdir: " + err.Error()})
	}
	vCleanups = append(vCleanups, func() { os.RemoveAll(d) })
	if vSharedFile == "" {
		vSharedFile = d + "/db.sqlite"
		return vSharedFile
	}
	return d + "/db.sqlite"
}

// vTempFile2 returns a fresh private file that is never shared with a crash child.
func vTempFile2() string {
	d, err := os.MkdirTemp("", "verif-native-")
	if err != nil {
		panic(vDesync{"tempdir: " + err.Error()})
	}
	vCleanups = append(vCleanups, func() { os.RemoveAll(d) })
	return d + "/db.sqlite"
}

func vCleanup() {
	for _, f := range vCleanups {
		f()
	}
	vCleanups = nil
}

type vAssertFailed struct{ Msg string }
type vAssumeFailed struct{}
type vDesync struct{ Msg string }

func vRegister(name string, f func()) { vHarnesses[name] = f }

func vload() {
	if vLoaded {
		return
	}
	vLoaded = true
	if p := os.Getenv("VERIF_REPLAY"); p != "" {
		b, err := os.ReadFile(p)
		if err != nil {
			panic(vDesync{"cannot read replay file: " + err.Error()})
		}
		if err := json.Unmarshal(b, &vFile); err != nil {
			panic(vDesync{"bad replay file: " + err.Error()})
		}
	}
}

func vnext(kind string, n int) []uint64 {
	vload()
	if vPos >= len(vFile.Inputs) {
		// inputs the path never constrained: zeros
		vPos++
		return make([]uint64, n)
	}
	in := vFile.Inputs[vPos]
	vPos++
	if in.Kind != kind {
		panic(vDesync{fmt.Sprintf("replay desync at input %d: harness wants %s, file has %s", vPos-1, kind, in.Kind)})
	}
	for len(in.Vals) < n {
		in.Vals = append(in.Vals, 0)
	}
	return in.Vals
}

func vBool() bool   { return vnext("bool", 1)[0] != 0 }
func vU8() uint8    { return uint8(vnext("u8", 1)[0]) }
func vU16() uint16  { return uint16(vnext("u16", 1)[0]) }
func vU32() uint32  { return uint32(vnext("u32", 1)[0]) }
func vU64() uint64  { return vnext("u64", 1)[0] }
func vI8() int8     { return int8(vnext("i8", 1)[0]) }
func vI16() int16   { return int16(vnext("i16", 1)[0]) }
func vI32() int32   { return int32(vnext("i32", 1)[0]) }
func vI64() int64   { return int64(vnext("i64", 1)[0]) }
func vInt() int     { return int(int64(vnext("int", 1)[0])) }
func vF64() float64 { return math.Float64frombits(vnext("f64", 1)[0]) }
func vF32() float32 { return math.Float32frombits(uint32(vnext("f32", 1)[0])) }

// vChoose returns an arbitrary value in [0,n); the engine explores each.
func vChoose(n int) int {
	v := int(vnext("choose", 1)[0])
	if v < 0 || v >= n {
		panic(vAssumeFailed{})
	}
	return v
}

// vRange returns an arbitrary int in [lo,hi] (one symbolic value, no fork).
func vRange(lo, hi int) int {
	v := int(int64(vnext("int", 1)[0]))
	if v < lo || v > hi {
		panic(vAssumeFailed{})
	}
	return v
}

func vBytes(n int) []byte {
	vals := vnext("bytes", n)
	b := make([]byte, n)
	for i := range b {
		b[i] = byte(vals[i])
	}
	return b
}

func vStr(n int) string {
	vals := vnext("str", n)
	b := make([]byte, n)
	for i := range b {
		b[i] = byte(vals[i])
	}
	return string(b)
}

func vAssume(c bool) {
	if !c {
		panic(vAssumeFailed{})
	}
}

func vAssert(c bool, msg string) {
	if !c {
		panic(vAssertFailed{msg})
	}
}

func vCover(string) {}

func vParam(name string, def int) int {
	vload()
	if v, ok := vFile.Params[name]; ok {
		return v
	}
	return def
}

// vFuncU16Bool returns an arbitrary predicate; natively each application
// returns the value the solver's model gave that application.
func vFuncU16Bool() func(uint16) bool {
	return func(uint16) bool { return vnext("ufret", 1)[0] != 0 }
}

// vPanics runs f and reports whether it panicked.
func vPanics(f func()) (p bool) {
	defer func() {
		if r := recover(); r != nil {
			switch r.(type) {
			case vAssertFailed, vAssumeFailed, vDesync:
				panic(r)
			}
			p = true
		}
	}()
	f()
	return false
}

// vInstant is the instant "day" days after the Unix epoch plus sec seconds
// and nsec nanoseconds, expressed in a zone off seconds east of UTC.
func vInstant(day, sec, nsec, off int) time.Time {
	t := time.Unix(int64(day)*86400+int64(sec), int64(nsec))
	if off == 0 {
		return t.UTC()
	}
	return t.In(time.FixedZone("v", off))
}

// vHourMin and vDateStr print clock times and dates the way the UI stores them.
func vHourMin(h, m int) string     { return fmt.Sprintf("%02d:%02d", h, m) }
func vDateStr(y, m, d int) string  { return fmt.Sprintf("%04d-%02d-%02d", y, m, d) }

// vDebug prints values when the engine is tracing; a no-op natively.
func vDebug(label string, vals ...interface{}) {}
