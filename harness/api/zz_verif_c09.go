package api

// C09 (HTTP part) — with an auth token configured, a node request that
// presents neither that token nor a bearer token the validator accepts gets
// 401 and causes no read or write.
//
// Real code: (*V1).ServeHTTP, (*Nodes).ServeHTTP, ShiftPath, Key.Valid (the
// form of the Authorization header; the JWT library behind ValidToken is
// outside the engine's reach, so the verdict on a well-formed bearer token is
// an arbitrary boolean supplied by a harness validator). net/http is reduced
// to Header accessors and http.Error (engine stub, the real ones natively).

import (
	"io"
	"net/http"
	"net/url"
)

func init() {
	vRegister("HarnessC09Gate", HarnessC09Gate)
	vRegister("HarnessC09Bearer", HarnessC09Bearer)
	vRegister("HarnessC09Jwt", HarnessC09Jwt)
}

// c09Validator stands for the JWT check: an arbitrary verdict.
type c09Validator struct {
	ok bool
	id string
}

func (v c09Validator) NewToken(id string) (string, error)  { return "t", nil }
func (v c09Validator) Valid(*http.Request) (bool, string) { return v.ok, v.id }

type c09Rec struct {
	hdr    http.Header
	code   int
	body   []byte
	writes int
}

func (r *c09Rec) Header() http.Header {
	if r.hdr == nil {
		r.hdr = http.Header{}
	}
	return r.hdr
}
func (r *c09Rec) Write(b []byte) (int, error) {
	if r.code == 0 {
		r.code = http.StatusOK
	}
	r.writes++
	r.body = append(r.body, b...)
	return len(b), nil
}
func (r *c09Rec) WriteHeader(c int) {
	if r.code == 0 {
		r.code = c
	}
}

type c09Body struct{ reads int }

func (b *c09Body) Read(p []byte) (int, error) { b.reads++; return 0, io.EOF }
func (b *c09Body) Close() error               { return nil }

var c09Methods = []string{"GET", "POST", "DELETE", "PUT", "PATCH", "HEAD", "OPTIONS", "get", ""}
var c09Paths = []string{"/nodes", "/nodes/", "/nodes/n1", "/nodes/n1/", "/nodes/n1/points", "/nodes/n1/parents", "/nodes/n1/not", "/nodes/n1/msg",
	"/nodes/n1/zz", "/nodes//n1", "/nodes/../nodes/n1/points", "nodes/n1", "/nodes/root/points"}

func HarnessC09Gate() {
	nc := vConn()
	token := vStr(1 + vChoose(2)) // the configured auth token (not empty)
	valid := c09Validator{ok: vBool(), id: "u1"}
	h := NewV1Handler(ServerArgs{JwtAuth: valid, AuthToken: token, Nc: nc})

	req := &http.Request{Method: c09Methods[vChoose(len(c09Methods))], URL: &url.URL{Path: c09Paths[vChoose(len(c09Paths))]}, Header: http.Header{}}
	body := &c09Body{}
	req.Body = body
	presented := ""
	if vBool() {
		presented = vStr(vChoose(4))
		req.Header.Set("Authorization", presented)
		vCover("c09 gate: header present")
	} else {
		vCover("c09 gate: header absent")
	}
	// the request is not authorised: neither the token nor an accepted bearer token
	vAssume(presented != token && !valid.ok)

	rec := &c09Rec{}
	h.ServeHTTP(rec, req)

	vAssert(rec.code == http.StatusUnauthorized, "a node request without the auth token or a valid bearer token gets 401")
	vAssert(len(vEvents(nc)) == 0, "an unauthorised request causes no read or write on the bus")
	vAssert(body.reads == 0, "the body of an unauthorised request is not consumed")
	vCover("c09 gate: refused")
}

// HarnessC09Bearer: Key.Valid refuses every Authorization value that is not
// the word Bearer followed by a token, without looking further.
func HarnessC09Bearer() {
	k, _ := NewKey([]byte("0123456789abcdefghij"))
	// the header is built from pieces so that its word structure is known:
	// [space] word1 [space] word2, each piece possibly empty
	word := func(max int) string {
		w := vStr(vChoose(max + 1))
		for i := 0; i < len(w); i++ {
			c := w[i]
			vAssume(c > ' ' && c < 0x7f) // printable, no white space
		}
		return w
	}
	sp := []string{"", " ", "\t", "  "}
	a, b := sp[vChoose(4)], sp[vChoose(4)]
	w1, w2 := word(vParam("w1", 6)), word(1)
	hdr := a + w1 + b + w2
	wellFormed := w1 == "Bearer" && b != "" && w2 != ""
	vAssume(!wellFormed)
	req := &http.Request{Header: http.Header{}}
	if len(hdr) > 0 || vBool() {
		req.Header.Set("Authorization", hdr)
	}
	ok, id := k.Valid(req)
	vAssert(!ok && id == "", "an Authorization value that is not 'Bearer <token>' is never valid")
	vCover("c09 bearer: malformed refused")
}

// HarnessC09Jwt: the real Key.Valid / ValidToken / keyFunc against the JWT
// library reduced to its documented contract (engine) resp. the real library
// (natively): a bearer token is accepted exactly when it is an HS256 token
// signed with the instance key, not expired and carrying the user id; tokens
// of another algorithm (HS384, HS512, none), signed with another key, expired
// or without user id are refused, and the gate answers 401.
func HarnessC09Jwt() {
	key := []byte("0123456789abcdefghij")
	k, _ := NewKey(key)
	alg := vChoose(4)
	keyOK, expired, jti := vChoose(2) == 1, vChoose(2) == 1, vChoose(2) == 1
	tok := vJWT(alg, keyOK, expired, jti, key)
	want := alg == 0 && keyOK && !expired && jti

	ok, id := k.ValidToken(tok)
	vAssert(ok == want, "a bearer token is valid exactly when it is HS256, signed with the instance key, unexpired and carries the user id")
	if ok {
		vAssert(id == "u1", "the user id of a valid token is reported")
	}

	// through the gate
	nc := vConn()
	h := NewV1Handler(ServerArgs{JwtAuth: k, AuthToken: "tk", Nc: nc})
	req := &http.Request{Method: "PUT", URL: &url.URL{Path: "/nodes/n1/zz"}, Header: http.Header{}}
	req.Body = &c09Body{}
	req.Header.Set("Authorization", "Bearer "+tok)
	rec := &c09Rec{}
	h.ServeHTTP(rec, req)
	if want {
		vCover("c09 jwt: accepted")
		vAssert(rec.code != http.StatusUnauthorized, "a request with a valid bearer token passes the gate")
	} else {
		vCover("c09 jwt: refused")
		vAssert(rec.code == http.StatusUnauthorized && len(vEvents(nc)) == 0, "a request with an invalid bearer token gets 401 and causes no bus traffic")
	}
}
