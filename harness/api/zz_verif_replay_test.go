package api

import (
	"fmt"
	"os"
	"testing"
)

// TestVerifReplay runs one harness natively on the inputs in VERIF_REPLAY and
// prints a single VERIF-RESULT line.
func TestVerifReplay(t *testing.T) {
	name := os.Getenv("VERIF_HARNESS")
	f := vHarnesses[name]
	if f == nil {
		fmt.Printf("VERIF-RESULT: no-harness %s\n", name)
		return
	}
	defer vCleanup()
	defer func() {
		if r := recover(); r != nil {
			switch r := r.(type) {
			case vAssertFailed:
				fmt.Printf("VERIF-RESULT: assert-failed %s\n", r.Msg)
			case vAssumeFailed:
				fmt.Printf("VERIF-RESULT: assume-failed\n")
			case vDesync:
				fmt.Printf("VERIF-RESULT: desync %s\n", r.Msg)
			default:
				fmt.Printf("VERIF-RESULT: panic %v\n", r)
			}
			return
		}
	}()
	f()
	fmt.Printf("VERIF-RESULT: ok\n")
}
