//go:build !gosym

package api

import (
	"time"

	"github.com/golang-jwt/jwt/v4"
)

// vJWT builds a real token: alg 0..2 = HS256/HS384/HS512, 3 = none; keyOK
// signs with the instance key (otherwise with another key); expired puts the
// expiry in the past; jti adds the user id claim.
func vJWT(alg int, keyOK, expired, jti bool, key []byte) string {
	claims := jwt.MapClaims{"iss": "simpleiot"}
	if expired {
		claims["exp"] = time.Now().Add(-time.Hour).Unix()
	} else {
		claims["exp"] = time.Now().Add(time.Hour).Unix()
	}
	if jti {
		claims["jti"] = "u1"
	}
	k := key
	if !keyOK {
		k = []byte("another key of the same length")
	}
	var s string
	var err error
	switch alg {
	case 0:
		s, err = jwt.NewWithClaims(jwt.SigningMethodHS256, claims).SignedString(k)
	case 1:
		s, err = jwt.NewWithClaims(jwt.SigningMethodHS384, claims).SignedString(k)
	case 2:
		s, err = jwt.NewWithClaims(jwt.SigningMethodHS512, claims).SignedString(k)
	default:
		s, err = jwt.NewWithClaims(jwt.SigningMethodNone, claims).SignedString(jwt.UnsafeAllowNoneSignatureType)
	}
	if err != nil {
		panic(vDesync{"vJWT: " + err.Error()})
	}
	return s
}
