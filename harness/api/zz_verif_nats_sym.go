//go:build gosym

package api

// Declarations of the NATS harness API for the symbolic engine, which
// intercepts every call (the bodies are never executed).

import "github.com/nats-io/nats.go"

type vEvent struct {
	Kind    string // pub | req | respond
	Subject string
	Reply   string
	Data    []byte
}

func vConn() *nats.Conn                                                              { return nil }
func vConnNoEcho() *nats.Conn                                                       { return nil }
func vOnRequest(nc *nats.Conn, f func(subject string, data []byte) ([]byte, bool)) {}
func vEvents(nc *nats.Conn) []vEvent                                                 { return nil }
func vServe(nc *nats.Conn, subject string, handler func(*nats.Msg))                  {}
func vPublish(nc *nats.Conn, subject string, data []byte)                           {}
func vGo(f func())                                                                   {}
