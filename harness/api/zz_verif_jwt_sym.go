//go:build gosym

package api

func vJWT(alg int, keyOK, expired, jti bool, key []byte) string { return "" }
