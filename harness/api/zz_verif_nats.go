//go:build !gosym

package api

// Native twin of the NATS stub: an in-process nats-server, a recorder
// connection subscribed to ">" and an optional responder.

import (
	"strings"
	"sync"
	"time"

	natsserver "github.com/nats-io/nats-server/v2/server"
	"github.com/nats-io/nats.go"
)

type vEvent struct {
	Kind    string // pub | req | respond
	Subject string
	Reply   string
	Data    []byte
}

type vNatsState struct {
	srv       *natsserver.Server
	rec       *nats.Conn
	inj       *nats.Conn
	mu        sync.Mutex
	events    []vEvent
	injected  map[string]int
	responder func(subject string, data []byte) ([]byte, bool)
}

var vNats = map[*nats.Conn]*vNatsState{}

// vConn returns a connection to a fresh in-process bus.
func vConn() *nats.Conn { return vConnOpt(false) }

// vConnNoEcho is like vConn but the connection does not receive its own
// publishes (as the sync client's connections are configured).
func vConnNoEcho() *nats.Conn { return vConnOpt(true) }

func vConnOpt(noEcho bool) *nats.Conn {
	opts := &natsserver.Options{Host: "127.0.0.1", Port: -1, NoLog: true, NoSigs: true}
	s, err := natsserver.NewServer(opts)
	if err != nil {
		panic(vDesync{"nats server: " + err.Error()})
	}
	go s.Start()
	if !s.ReadyForConnections(5 * time.Second) {
		panic(vDesync{"nats server not ready"})
	}
	var copts []nats.Option
	if noEcho {
		copts = append(copts, nats.NoEcho())
	}
	nc, err := nats.Connect(s.ClientURL(), copts...)
	if err != nil {
		panic(vDesync{"nats connect: " + err.Error()})
	}
	rec, _ := nats.Connect(s.ClientURL())
	inj, _ := nats.Connect(s.ClientURL())
	st := &vNatsState{srv: s, rec: rec, inj: inj, injected: map[string]int{}}
	_, _ = rec.Subscribe(">", func(m *nats.Msg) {
		st.mu.Lock()
		key := m.Subject + "\x00" + string(m.Data)
		if st.injected[key] > 0 {
			st.injected[key]--
			st.mu.Unlock()
			return
		}
		kind := "pub"
		if strings.HasPrefix(m.Subject, "_INBOX.") {
			kind = "respond"
		} else if m.Reply != "" {
			kind = "req"
		}
		st.events = append(st.events, vEvent{Kind: kind, Subject: m.Subject, Reply: m.Reply, Data: append([]byte{}, m.Data...)})
		resp := st.responder
		st.mu.Unlock()
		if kind == "req" && resp != nil {
			if b, ok := resp(m.Subject, m.Data); ok {
				_ = m.Respond(b)
			}
		}
	})
	_ = rec.Flush()
	vNats[nc] = st
	return nc
}

func vOnRequest(nc *nats.Conn, f func(subject string, data []byte) ([]byte, bool)) {
	st := vNats[nc]
	st.mu.Lock()
	st.responder = f
	st.mu.Unlock()
}

func vSettle(nc *nats.Conn) {
	st := vNats[nc]
	for i := 0; i < 3; i++ {
		_ = nc.Flush()
		_ = st.inj.Flush()
		_ = st.rec.Flush()
		time.Sleep(20 * time.Millisecond)
	}
}

// vEvents returns what has been published on the bus so far (requests and
// replies included), in order.
func vEvents(nc *nats.Conn) []vEvent {
	vSettle(nc)
	st := vNats[nc]
	st.mu.Lock()
	defer st.mu.Unlock()
	return append([]vEvent{}, st.events...)
}

// vServe subscribes handler to subject (a real subscription natively; the
// engine dispatches matching requests and publishes to it synchronously).
func vServe(nc *nats.Conn, subject string, handler func(*nats.Msg)) {
	// served from a separate server-side connection so that connections
	// without echo still reach the handler
	st := vNats[nc]
	if _, err := st.inj.Subscribe(subject, handler); err != nil {
		panic(vDesync{"subscribe: " + err.Error()})
	}
	_ = st.inj.Flush()
}

// vPublish injects a message from another party and waits until the bus has
// delivered it.
func vPublish(nc *nats.Conn, subject string, data []byte) {
	st := vNats[nc]
	st.mu.Lock()
	st.injected[subject+"\x00"+string(data)]++
	st.mu.Unlock()
	_ = nc.Flush() // make sure subscriptions made so far are known to the server
	if err := st.inj.Publish(subject, data); err != nil {
		panic(vDesync{"publish: " + err.Error()})
	}
	vSettle(nc)
}

// vGo starts f as a goroutine; the engine runs it to completion at once and
// replays its channel operations in program order.
func vGo(f func()) { go f() }
