package client

// C12 (subject parsers): client.Decode*Msg on arbitrary subjects and payloads.

import (
	"github.com/nats-io/nats.go"
)

func init() {
	vRegister("HarnessC12Subjects", HarnessC12Subjects)
}

func c12Split(s string) []string {
	var out []string
	cur := ""
	for i := 0; i < len(s); i++ {
		if s[i] == '.' {
			out = append(out, cur)
			cur = ""
		} else {
			cur += string(s[i])
		}
	}
	return append(out, cur)
}

// HarnessC12Subjects: the four subject parsers never panic and return the
// documented chunks.
func HarnessC12Subjects() {
	n := vChoose(vParam("sublen", 6) + 1)
	subj := vStr(n)
	for i := 0; i < n; i++ {
		vAssume(subj[i] == '.' || subj[i] == 'a' || subj[i] == 'b')
	}
	msg := &nats.Msg{Subject: subj}
	if vBool() {
		msg.Data = vBytes(1 + vChoose(2)) // garbage payload
	}
	chunks := c12Split(subj)
	switch vChoose(4) {
	case 0:
		id, _, err := DecodeNodePointsMsg(msg)
		if len(chunks) < 2 {
			vAssert(err != nil, "node points subject needs two chunks")
		} else if err == nil {
			vCover("subjects: node points ok")
			vAssert(id == chunks[1], "node id is the second chunk")
		}
	case 1:
		id, parent, _, err := DecodeEdgePointsMsg(msg)
		if len(chunks) < 3 {
			vAssert(err != nil, "edge points subject needs three chunks")
		} else if err == nil {
			vCover("subjects: edge points ok")
			vAssert(id == chunks[1] && parent == chunks[2], "node and parent ids are chunks two and three")
		}
	case 2:
		up, id, _, err := DecodeUpNodePointsMsg(msg)
		if len(chunks) < 3 {
			vAssert(err != nil, "up node subject needs three chunks")
		} else if err == nil {
			vCover("subjects: up node ok")
			vAssert(up == chunks[1] && id == chunks[2], "up and node ids are chunks two and three")
		}
	case 3:
		up, id, parent, _, err := DecodeUpEdgePointsMsg(msg)
		if len(chunks) < 4 {
			vAssert(err != nil, "up edge subject needs four chunks")
		} else if err == nil {
			vCover("subjects: up edge ok")
			vAssert(up == chunks[1] && id == chunks[2] && parent == chunks[3], "up, node and parent ids are chunks two to four")
		}
	}
}
