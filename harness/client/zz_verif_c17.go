package client

// C17 — serial packets round-trip and corruption is always detected.
//
// Real code: SerialEncode, SerialDecode, Point.ToSerial, SerialToPoint,
// PbDecodeSerialPoints, crc16.ChecksumCCITT/Update. The protobuf codec is the
// engine's stub (arbitrary bytes that unmarshal to the marshalled message).

import (
	"math"
	"time"

	"github.com/kjx98/crc16"
	"github.com/simpleiot/simpleiot/data"
)

func init() {
	vRegister("HarnessC17RoundTrip", HarnessC17RoundTrip)
	vRegister("HarnessC17Decode", HarnessC17Decode)
	vRegister("HarnessC17CrcStep", HarnessC17CrcStep)
	vRegister("HarnessC17CrcLinear", HarnessC17CrcLinear)
	vRegister("HarnessC17Detect", HarnessC17Detect)
	vRegister("HarnessC17SubjectEscape", HarnessC17SubjectEscape)
}

// c17Str returns an arbitrary string of 0..max bytes without NUL.
func c17Str(max int) string {
	s := vStr(vChoose(max + 1))
	for i := 0; i < len(s); i++ {
		vAssume(s[i] != 0)
	}
	return s
}

func c17Point(strMax int) data.Point {
	return data.Point{
		Type:      vStr(vChoose(strMax + 1)),
		Key:       vStr(vChoose(strMax + 1)),
		Text:      vStr(vChoose(strMax + 1)),
		Origin:    vStr(vChoose(strMax + 1)),
		Time:      time.Unix(0, vI64()),
		Value:     vF64(),
		Tombstone: int(vI32()),
	}
}

// HarnessC17RoundTrip: decode(encode(seq, subject, points)) gives everything back.
func HarnessC17RoundTrip() {
	seq := vU8()
	subject := c17Str(vParam("subj", 3))
	if vBool() {
		// the longest subject that fits
		subject = subject + "0123456789abcdef"[:16-len(subject)]
		vCover("roundtrip: 16-byte subject")
	}
	vAssume(subject != "log")
	n := vChoose(vParam("points", 2) + 1)
	var pts data.Points
	for i := 0; i < n; i++ {
		pts = append(pts, c17Point(vParam("str", 1)))
	}
	enc, err := SerialEncode(seq, subject, pts)
	vAssert(err == nil, "encode of a subject of at most 16 bytes succeeds")
	seq2, sub2, payload, err := SerialDecode(enc)
	vAssert(err == nil, "decode of an encoded packet succeeds")
	vAssert(seq2 == seq, "sequence number survives")
	vAssert(sub2 == subject, "subject survives")
	got, err := data.PbDecodeSerialPoints(payload)
	vAssert(err == nil, "payload decodes")
	vAssert(len(got) == len(pts), "same number of points")
	for i := range pts {
		p, g := pts[i], got[i]
		vAssert(g.Type == p.Type && g.Key == p.Key && g.Text == p.Text && g.Origin == p.Origin, "point strings survive")
		vAssert(g.Tombstone == p.Tombstone, "tombstone survives")
		vAssert(g.Time.UnixNano() == p.Time.UnixNano(), "time survives to the nanosecond")
		want := float64(float32(p.Value))
		vAssert(math.Float64bits(g.Value) == math.Float64bits(want) || (g.Value != g.Value && want != want), "value survives to float32 precision")
	}
	vCover("roundtrip: done")
	// too long a subject is refused
	_, err = SerialEncode(seq, subject+"0123456789abcdefg"[:17-len(subject)], pts)
	vAssert(err != nil, "a subject longer than 16 bytes is refused")
}

// c17Subject extracts the subject the way the format defines it: the 16
// bytes after the sequence number without leading/trailing NULs.
func c17Subject(d []byte) string {
	a, b := 1, 17
	for a < b && d[a] == 0 {
		a++
	}
	for b > a && d[b-1] == 0 {
		b--
	}
	return string(d[a:b])
}

// HarnessC17Decode (L3): for arbitrary bytes, SerialDecode accepts a non-log
// packet exactly when the trailer equals the library CRC of everything before
// it, and returns the documented slices.
func HarnessC17Decode() {
	n := vChoose(vParam("dlen", 22) + 1)
	d := vBytes(n)
	orig := append([]byte{}, d...)
	seq, subject, payload, err := SerialDecode(d)
	if n < 17 {
		vCover("decode: short")
		vAssert(err != nil, "a packet shorter than the header is rejected")
		return
	}
	want := c17Subject(orig)
	if want == "log" {
		vCover("decode: log")
		vAssert(err == nil && seq == orig[0] && subject == "log" && c16Equal(payload, orig[17:]), "log packets carry no CRC: whole rest is payload")
		return
	}
	if n < 19 {
		vCover("decode: no room for crc")
		vAssert(err != nil, "a non-log packet without room for the CRC is rejected")
		return
	}
	crc := crc16.ChecksumCCITT(orig[:n-2])
	if orig[n-2] != byte(crc) || orig[n-1] != byte(crc>>8) {
		vCover("decode: bad crc")
		vAssert(err != nil, "a packet whose trailer is not the CRC of the preceding bytes is rejected")
		return
	}
	vCover("decode: good")
	vAssert(err == nil, "a packet with correct CRC is accepted")
	vAssert(seq == orig[0] && subject == want && c16Equal(payload, orig[17:n-2]), "decode returns sequence, subject and payload")
}

// kermitStep is one byte of the textbook bitwise CRC-16/KERMIT
// (poly 0x1021 reflected = 0x8408, init 0, no final XOR).
func kermitStep(c uint16, b byte) uint16 {
	c ^= uint16(b)
	for k := 0; k < 8; k++ {
		if c&1 != 0 {
			c = (c >> 1) ^ 0x8408
		} else {
			c = c >> 1
		}
	}
	return c
}

func kermit(p []byte) uint16 {
	c := uint16(0)
	for _, b := range p {
		c = kermitStep(c, b)
	}
	return c
}

// HarnessC17CrcStep (L0): the library's table-driven update is CRC-16/KERMIT,
// one step from an arbitrary state (hence, by induction on the length, for
// every input), plus the two-byte fold and the published check value.
func HarnessC17CrcStep() {
	vAssert(kermit([]byte("123456789")) == 0x2189, "reference CRC-16/KERMIT check value")
	vAssert(crc16.ChecksumCCITT([]byte("123456789")) == 0x2189, "library check value")
	vAssert(crc16.ChecksumCCITT(nil) == 0, "CRC of the empty string is 0")
	c, b0, b1 := vU16(), vU8(), vU8()
	vAssert(crc16.Update(c, crc16.CCITTTable, []byte{b0}) == kermitStep(c, b0), "table step equals the bitwise KERMIT step for every state and byte")
	vAssert(crc16.Update(c, crc16.CCITTTable, []byte{b0, b1}) == crc16.Update(crc16.Update(c, crc16.CCITTTable, []byte{b0}), crc16.CCITTTable, []byte{b1}), "update folds the step over the bytes")
}

// HarnessC17CrcLinear (L1): the step is linear over GF(2), hence
// CRC(x xor e) = CRC(x) xor CRC(e) for equal lengths.
func HarnessC17CrcLinear() {
	c1, c2, b1, b2 := vU16(), vU16(), vU8(), vU8()
	vAssert(kermitStep(c1^c2, b1^b2) == kermitStep(c1, b1)^kermitStep(c2, b2), "KERMIT step is linear")
}

// HarnessC17Detect (L2): no non-zero error pattern of weight <= 2 or burst of
// <= 16 bits (in line order: bytes in order, least significant bit first) has
// CRC(body part) == trailer part, for every frame length up to the bound. By
// L0, L1 and L3 an accepted packet altered by such a pattern is rejected.
func HarnessC17Detect() {
	n := 19 + vChoose(vParam("flen", 6)) // frame length in bytes, trailer included
	e := make([]byte, n)
	if vBool() {
		vCover("detect: two bits")
		p1, p2 := vChoose(n), vChoose(n)
		vAssume(p1 <= p2)
		m1, m2 := byte(1)<<uint(vChoose(8)), byte(0)
		if vBool() {
			m2 = byte(1) << uint(vChoose(8))
		}
		e[p1] ^= m1
		e[p2] ^= m2
	} else {
		vCover("detect: burst")
		// a burst of up to 16 bits starting at bit s of byte p: three bytes of arbitrary bits
		p := vChoose(n)
		w := uint32(vU16()) | 1 // first bit of the burst is set
		s := uint(vChoose(8))
		w <<= s
		e[p] = byte(w)
		if p+1 < n {
			e[p+1] = byte(w >> 8)
		} else {
			vAssume(byte(w>>8) == 0)
		}
		if p+2 < n {
			e[p+2] = byte(w >> 16)
		} else {
			vAssume(byte(w>>16) == 0)
		}
	}
	nz := false
	for _, x := range e {
		if x != 0 {
			nz = true
		}
	}
	vAssume(nz)
	c := kermit(e[:n-2])
	vAssert(e[n-2] != byte(c) || e[n-1] != byte(c>>8), "an error pattern of the class is never a code word")
}

// HarnessC17SubjectEscape (L4): can an error of the class turn a documented
// subject into "log", whose packets skip the CRC check?
func HarnessC17SubjectEscape() {
	// documented subjects: "", "phr", "ack", "p.<id>", "p.<id>.<parent>"
	var subject string
	switch vChoose(4) {
	case 0:
		subject = ""
	case 1:
		subject = "phr"
	case 2:
		subject = "ack"
	case 3:
		id := c17Str(vParam("idlen", 3))
		vAssume(len(id) >= 1)
		for i := 0; i < len(id); i++ {
			c := id[i]
			vAssume((c >= '0' && c <= '9') || (c >= 'a' && c <= 'z') || (c >= 'A' && c <= 'Z') || c == '-')
		}
		subject = "p." + id
		if vBool() {
			subject += "." + id
		}
	}
	vAssume(len(subject) <= 16)
	pkt, err := SerialEncode(vU8(), subject, nil)
	vAssert(err == nil, "encode")
	// one burst of <= 16 bits inside the subject field
	p := 1 + vChoose(4)
	w := (uint32(vU16()) | 1) << uint(vChoose(8))
	d := append([]byte{}, pkt...)
	d[p] ^= byte(w)
	d[p+1] ^= byte(w >> 8)
	d[p+2] ^= byte(w >> 16)
	_, sub2, _, derr := SerialDecode(d)
	vCover("escape: tried")
	vAssert(derr != nil || sub2 != "log", "a burst error must not turn a documented subject into a CRC-less log packet")
}
