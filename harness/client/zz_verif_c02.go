package client

// C02 — linked instances converge on the shared device tree (catch-up step).
//
// Real code: (*SyncClient).syncNode, sendNodesRemote / sendNodesLocal,
// subscribeRemoteNode, SendNode / SendNodePoint / SendEdgePoint, GetNodes,
// GetRootNode, Point.IsMatch, NodeEdge.IsTombstone. The two instances are two
// miniature node stores (newest point per identity wins: the C01
// post-condition as a summary). syncNode looks only at the current two
// states, so an arbitrary pair of states subsumes every write history and
// every pattern of link loss; message timing and the real-time forwarding
// subscriptions are outside the claim.

import (
	"github.com/nats-io/nats.go"
	"github.com/simpleiot/simpleiot/data"
)

func init() {
	vRegister("HarnessC02Sync", HarnessC02Sync)
	vRegister("HarnessC02Forward", HarnessC02Forward)
}

// c02Points: an arbitrary subset of the identities (v,0), (w,0) (and (u,0)
// with parameter "ids" = 3) with
// arbitrary values and times taken from a small range (so that the two
// sides can hold older, newer or equal versions).
func c02Points(tag string) data.Points {
	var out data.Points
	for _, typ := range []string{"v", "w", "u"}[:vParam("ids", 2)] {
		if vBool() {
			p := data.Point{Type: typ, Key: "0", Time: vInstant(19886, vRange(0, 3), 0, 0), Value: vF64(), Text: tag}
			vAssume(p.Value == p.Value)
			out = append(out, p)
		}
	}
	return out
}

func c02Tomb(del bool) data.Point {
	v := 0.0
	if del {
		v = 1
	}
	return data.Point{Type: data.PointTypeTombstone, Key: "0", Time: vInstant(19886, vRange(0, 3), 0, 0), Value: v}
}

// c02EdgePt: another edge point identity (a role) with an arbitrary value and
// a time from the small range.
func c02EdgePt(tag string) data.Point {
	p := data.Point{Type: "role", Key: "0", Time: vInstant(19886, vRange(0, 3), 0, 0), Value: vF64(), Text: tag}
	vAssume(p.Value == p.Value)
	return p
}

func c02Find(ps data.Points, typ, key string) (data.Point, bool) {
	for _, p := range ps {
		if p.Type == typ && p.Key == key {
			return p, true
		}
	}
	return data.Point{}, false
}

// c02Newest: newest per identity of a and b.
func c02Newest(a, b data.Points) data.Points {
	out := append(data.Points{}, a...)
	for _, p := range b {
		found := false
		for i := range out {
			if out[i].Type == p.Type && out[i].Key == p.Key {
				found = true
				if out[i].Time.Before(p.Time) {
					out[i] = p
				}
			}
		}
		if !found {
			out = append(out, p)
		}
	}
	return out
}

func c02SamePoints(a, b data.Points) bool {
	if len(a) != len(b) {
		return false
	}
	for _, p := range a {
		q, ok := c02Find(b, p.Type, p.Key)
		if !ok || !q.Time.Equal(p.Time) || q.Value != p.Value || q.Text != p.Text {
			return false
		}
	}
	return true
}

func c02DistinctTimes(a, b data.Points) {
	for _, p := range a {
		if q, ok := c02Find(b, p.Type, p.Key); ok {
			// same identity on both sides: either the very same point or distinct timestamps
			same := q.Time.Equal(p.Time) && q.Value == p.Value && q.Text == p.Text
			vAssume(same || !q.Time.Equal(p.Time))
		}
	}
}

func HarnessC02Sync() {
	ncL, ncR := vConnNoEcho(), vConnNoEcho()
	t0 := vInstant(19886, 0, 0, 0)
	live := data.Point{Type: data.PointTypeTombstone, Key: "0", Time: t0}

	// device d is the local root; upstream it sits below the upstream root
	dL, dR := c02Points("L"), c02Points("R")
	c02DistinctTimes(dL, dR)
	local := []data.NodeEdge{{ID: "d", Parent: "root", Type: data.NodeTypeDevice, Points: dL, EdgePoints: data.Points{live}}}
	remote := []data.NodeEdge{
		{ID: "rootR", Parent: "root", Type: data.NodeTypeDevice, EdgePoints: data.Points{live}},
		{ID: "d", Parent: "rootR", Type: data.NodeTypeDevice, Points: dR, EdgePoints: data.Points{live}},
	}
	// child c of d: on both sides, only locally, only upstream, or nowhere
	var cL, cR, ceL, ceR data.Points
	childL, childR := vBool(), vBool()
	if childL {
		cL = c02Points("L")
		ceL = data.Points{c02Tomb(false)}
		if vParam("role", 1) == 1 && vBool() {
			ceL = append(ceL, c02EdgePt("L"))
		}
		local = append(local, data.NodeEdge{ID: "c", Parent: "d", Type: "x", Points: cL, EdgePoints: ceL})
	}
	if childR {
		cR = c02Points("R")
		ceR = data.Points{c02Tomb(vParam("deleted", 0) == 1 && vBool())}
		if vParam("role", 1) == 1 && vBool() {
			ceR = append(ceR, c02EdgePt("R"))
		}
		remote = append(remote, data.NodeEdge{ID: "c", Parent: "d", Type: "x", Points: cR, EdgePoints: ceR})
	}
	if childL && childR {
		c02DistinctTimes(cL, cR)
		c02DistinctTimes(ceL, ceR)
	}
	srvL := vServeNodes(ncL, "d", local)
	srvR := vServeNodes(ncR, "rootR", remote)

	// no checksum collisions: equal hashes mean equal content
	sameC := childL == childR && (!childL || (c02SamePoints(cL, cR) && c02SamePoints(ceL, ceR)))
	sameD := c02SamePoints(dL, dR) && sameC
	hdL := srvL.hash("root", "d") ^ live.CRC()
	hdR := srvR.hash("rootR", "d") ^ live.CRC()
	vAssume((hdL == hdR) == sameD)
	if childL && childR {
		vAssume((srvL.hash("d", "c") == srvR.hash("d", "c")) == (c02SamePoints(cL, cR) && c02SamePoints(ceL, ceR)))
	}

	up := &SyncClient{
		nc: ncL, ncLocal: ncL, ncRemote: ncR,
		rootLocal:           data.NodeEdge{ID: "d", Parent: "root", Type: data.NodeTypeDevice},
		config:              Sync{ID: "sync", Parent: "d"},
		subRemoteNodePoints: map[string]*nats.Subscription{},
		subRemoteEdgePoints: map[string]*nats.Subscription{},
	}
	err := up.syncNode("root", "d")
	vAssert(err == nil, "the catch-up pass completes")
	if vParam("passes", 1) == 2 {
		// no checksum collisions in the new state either
		qc := func(s *vNodeSrv) (data.Points, data.Points, bool) {
			n := s.query("d", "c", "", true)
			if len(n) != 1 {
				return nil, nil, false
			}
			return n[0].Points, n[0].EdgePoints, true
		}
		pL, eL, okL := qc(srvL)
		pR, eR, okR := qc(srvR)
		sameC2 := okL == okR && (!okL || (c02SamePoints(pL, pR) && c02SamePoints(eL, eR)))
		if okL && okR {
			vAssume((srvL.hash("d", "c") == srvR.hash("d", "c")) == sameC2)
		}
		dl, dr := srvL.query("root", "d", "", true), srvR.query("rootR", "d", "", true)
		vAssume(((srvL.hash("root", "d") ^ live.CRC()) == (srvR.hash("rootR", "d") ^ live.CRC())) == (c02SamePoints(dl[0].Points, dr[0].Points) && sameC2))
		// the periodic pass runs again
		err = up.syncNode("root", "d")
		vAssert(err == nil, "the second catch-up pass completes")
	}

	// after the pass both sides hold the newest point per identity of the device node
	want := c02Newest(dL, dR)
	gotL, gotR := srvL.query("root", "d", "", true), srvR.query("rootR", "d", "", true)
	vAssert(len(gotL) == 1 && len(gotR) == 1, "the device node exists on both sides")
	stripSync := func(ps data.Points) data.Points {
		var out data.Points
		for _, p := range ps {
			if p.Type != data.PointTypeSyncCount {
				out = append(out, p)
			}
		}
		return out
	}
	vAssert(c02SamePoints(stripSync(gotL[0].Points), want), "downstream holds the newest point per identity accepted on either side")
	vAssert(c02SamePoints(stripSync(gotR[0].Points), want), "upstream holds the newest point per identity accepted on either side")

	// the child
	if childL || childR {
		cl, cr := srvL.query("d", "c", "", true), srvR.query("d", "c", "", true)
		deletedUp := childR && ceR[0].Value == 1
		if deletedUp && !childL {
			// deleted upstream and unknown downstream: nothing to transfer (only live children are listed)
			vCover("c02: child deleted upstream only")
			return
		}
		pre := ""
		if deletedUp {
			// every upstream placement of the child is tombstoned
			pre = "child deleted upstream: "
			vCover("c02: child deleted upstream")
		}
		vAssert(len(cl) == 1 && len(cr) == 1, pre+"a node present on one side is created on the other")
		wantC := c02Newest(cL, cR)
		vAssert(cl[0].Type == "x" && cr[0].Type == "x", pre+"transferred nodes keep their type")
		vAssert(c02SamePoints(cl[0].Points, wantC), pre+"downstream child holds the newest point per identity")
		vAssert(c02SamePoints(cr[0].Points, wantC), pre+"upstream child holds the newest point per identity")
		wantE := c02Newest(ceL, ceR)
		we, _ := c02Find(wantE, data.PointTypeTombstone, "0")
		le, _ := c02Find(cl[0].EdgePoints, data.PointTypeTombstone, "0")
		re, _ := c02Find(cr[0].EdgePoints, data.PointTypeTombstone, "0")
		if !deletedUp {
			// every other edge point identity: both sides hold the newest accepted on either side
			wr, okW := c02Find(wantE, "role", "0")
			lr, okL := c02Find(cl[0].EdgePoints, "role", "0")
			rr, okR := c02Find(cr[0].EdgePoints, "role", "0")
			vAssert(okL == okW && okR == okW, "an edge point present on one side is present on both after catch-up")
			if okW {
				vCover("c02: edge point compared")
				vAssert(lr.Time.Equal(wr.Time) && lr.Value == wr.Value && lr.Text == wr.Text, "downstream holds the newest edge point per identity")
				vAssert(rr.Time.Equal(wr.Time) && rr.Value == wr.Value && rr.Text == wr.Text, "upstream holds the newest edge point per identity")
			}
		}
		if childL && childR {
			vCover("c02: child on both sides")
			vAssert(le.Value == we.Value && re.Value == we.Value, pre+"both sides agree on the newest deletion state of the child; no accepted deletion is reverted")
		} else {
			vCover("c02: child on one side")
			vAssert(le.Value == 0 && re.Value == 0, pre+"a transferred child is live on both sides")
		}
	}
	vCover("c02: done")
}

// HarnessC02Forward — while the link is up, a write accepted upstream for a
// synchronised node (node points or edge points) is forwarded downstream by
// the subscriptions subscribeRemoteNode sets up, so both sides again hold the
// same newest point per identity. (The opposite direction lives inside the
// timer-driven Run loop and is outside the claim.)
func HarnessC02Forward() {
	ncL, ncR := vConnNoEcho(), vConnNoEcho()
	t0 := vInstant(19886, 0, 0, 0)
	live := data.Point{Type: data.PointTypeTombstone, Key: "0", Time: t0}
	shared := c02Points("S") // what both sides hold for the child before the write
	local := []data.NodeEdge{
		{ID: "d", Parent: "root", Type: data.NodeTypeDevice, EdgePoints: data.Points{live}},
		{ID: "c", Parent: "d", Type: "x", Points: append(data.Points{}, shared...), EdgePoints: data.Points{live}},
	}
	remote := []data.NodeEdge{
		{ID: "rootR", Parent: "root", Type: data.NodeTypeDevice, EdgePoints: data.Points{live}},
		{ID: "d", Parent: "rootR", Type: data.NodeTypeDevice, EdgePoints: data.Points{live}},
		{ID: "c", Parent: "d", Type: "x", Points: append(data.Points{}, shared...), EdgePoints: data.Points{live}},
	}
	srvL := vServeNodes(ncL, "d", local)
	srvR := vServeNodes(ncR, "rootR", remote)
	up := &SyncClient{
		nc: ncL, ncLocal: ncL, ncRemote: ncR,
		rootLocal:           data.NodeEdge{ID: "d", Parent: "root", Type: data.NodeTypeDevice},
		config:              Sync{ID: "sync", Parent: "d"},
		subRemoteNodePoints: map[string]*nats.Subscription{},
		subRemoteEdgePoints: map[string]*nats.Subscription{},
	}
	err := up.subscribeRemoteNode("root", "d")
	vAssert(err == nil, "subscribing to the upstream copies of the local nodes succeeds")

	// a client writes upstream
	target := []string{"d", "c"}[vChoose(2)]
	p := data.Point{Type: []string{"v", "w", "n"}[vChoose(3)], Key: "0", Time: vInstant(19886, vRange(0, 3), 0, 0), Value: vF64(), Text: "U"}
	vAssume(p.Value == p.Value)
	for _, q := range shared {
		if target == "c" && q.Type == p.Type {
			vAssume(!q.Time.Equal(p.Time))
		}
	}
	edge := target == "c" && vBool()
	if edge {
		vCover("c02 forward: edge point")
		p.Type = "role"
		err = SendEdgePoint(ncR, "c", "d", p, true)
	} else {
		vCover("c02 forward: node point")
		err = SendNodePoint(ncR, target, p, true)
	}
	vAssert(err == nil, "the upstream write is acknowledged")
	// the same message as every other subscriber of the upstream bus sees it
	// (the engine's bus delivers to subscriptions only on vPublish; natively
	// this is a harmless re-delivery)
	fwd := data.Points{p}
	payload, perr := fwd.ToPb()
	vAssume(perr == nil)
	if edge {
		vPublish(ncR, "p.c.d", payload)
	} else {
		vPublish(ncR, "p."+target, payload)
	}

	parentOf := map[string]string{"d": "root", "c": "d"}
	parentUp := map[string]string{"d": "rootR", "c": "d"}
	gl, gr := srvL.query(parentOf[target], target, "", true), srvR.query(parentUp[target], target, "", true)
	vAssert(len(gl) == 1 && len(gr) == 1, "the node exists on both sides")
	if edge {
		le, okL := c02Find(gl[0].EdgePoints, "role", "0")
		re, okR := c02Find(gr[0].EdgePoints, "role", "0")
		vAssert(okL && okR && le.Value == re.Value && le.Time.Equal(re.Time) && le.Text == re.Text, "an edge point accepted upstream reaches the downstream instance")
	} else {
		vAssert(c02SamePoints(gl[0].Points, gr[0].Points), "after forwarding both sides hold the same newest point per identity")
	}
	vCover("c02 forward: done")
}
