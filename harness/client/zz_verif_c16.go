package client

// C16 — COBS framing delivers each frame intact for any read chunking.
//
// Real code: (*CobsWrapper).Write, (*CobsWrapper).Read, cobsDecodeInplace,
// cobs.Encode, bytes.Buffer. Black-box: only the results of Read on a fresh
// wrapper over a scripted device are observed.

import (
	"io"
)

func init() {
	vRegister("HarnessC16Lemma", HarnessC16Lemma)
	vRegister("HarnessC16Clean", HarnessC16Clean)
	vRegister("HarnessC16Prefix", HarnessC16Prefix)
	vRegister("HarnessC16Damage", HarnessC16Damage)
	vRegister("HarnessC16Tight", HarnessC16Tight)
	vRegister("HarnessC16LongRun", HarnessC16LongRun)
}

// HarnessC16Tight: as the clean stream, but the caller's buffer is exactly as
// large as the longest encoded frame (the documented minimum) and the
// wrapper's message limit is the longest payload, so the length guards sit at
// their boundaries; optional extra delimiters between frames.
func HarnessC16Tight() {
	dev := &c16Dev{maxCut: vParam("cuts", 64)}
	cw := NewCobsWrapper(dev, vParam("flen", 2)+2)
	var frames [][]byte
	maxEnc := 0
	for i, k := 0, vParam("frames", 2); i < k; i++ {
		n := 1 + vChoose(vParam("flen", 2))
		p := vBytes(n)
		frames = append(frames, append([]byte{}, p...))
		for j, z := 0, vChoose(vParam("nulls", 1)+1); j < z; j++ {
			dev.stream = append(dev.stream, 0) // idle delimiters on the line
		}
		before := len(dev.stream)
		_, err := cw.Write(p)
		vAssert(err == nil, "write succeeds")
		if e := len(dev.stream) - before - 1; e > maxEnc { // encoded frame incl. its delimiter, without the leading NUL
			maxEnc = e
		}
	}
	for i := range frames {
		buf := make([]byte, maxEnc)
		c, err := cw.Read(buf)
		vAssert(err == nil, "tight buffer: Read returns no error")
		vAssert(c16Equal(buf[:c], frames[i]), "tight buffer: Read returns the frames written, intact, in order")
	}
	vCover("tight: all frames read")
}

// c16Dev is the scripted serial device: Write appends to the stream, each
// Read hands out the next chunk, whose size is arbitrary (1..remaining).
type c16Dev struct {
	stream []byte
	pos    int
	reads  int
	maxCut int // after this many reads the rest is delivered in one piece
}

func (d *c16Dev) Write(p []byte) (int, error) {
	d.stream = append(d.stream, p...)
	return len(p), nil
}

func (d *c16Dev) Read(p []byte) (int, error) {
	rem := len(d.stream) - d.pos
	if rem <= 0 {
		return 0, io.EOF
	}
	n := rem
	if d.reads < d.maxCut {
		n = 1 + vChoose(rem)
	}
	d.reads++
	if n > len(p) {
		n = len(p)
	}
	copy(p, d.stream[d.pos:d.pos+n])
	d.pos += n
	return n, nil
}

func (d *c16Dev) Close() error { return nil }

func c16Equal(a, b []byte) bool {
	if len(a) != len(b) {
		return false
	}
	for i := range a {
		if a[i] != b[i] {
			return false
		}
	}
	return true
}

// HarnessC16Lemma: cobsDecodeInplace(what Write puts on the line for p) == p.
func HarnessC16Lemma() {
	n := vChoose(vParam("lemmalen", 4) + 1)
	p := vBytes(n)
	orig := append([]byte{}, p...)
	dev := &c16Dev{}
	_, werr := NewCobsWrapper(dev, 64).Write(p)
	vAssert(werr == nil, "write succeeds")
	e := append([]byte{}, dev.stream[1:]...) // what the writer put on the line, without the leading NUL
	c, err := cobsDecodeInplace(e)
	if n == 0 {
		// an empty payload encodes to {1,0}: too short for the decoder by design
		vCover("lemma: empty")
		return
	}
	vCover("lemma: nonempty")
	vAssert(err == nil, "decode of an encoded payload succeeds")
	vAssert(c == n, "decoded length equals payload length")
	vAssert(c16Equal(e[:c], orig), "decode(encode(p)) == p")
}

// c16Frames writes k arbitrary frames of 1..maxLen bytes through the real
// Write and returns the payloads.
func c16Frames(cw *CobsWrapper, k, maxLen int) [][]byte {
	c16EncLens = nil
	var frames [][]byte
	for i := 0; i < k; i++ {
		n := 1 + vChoose(maxLen)
		p := vBytes(n)
		frames = append(frames, append([]byte{}, p...))
		before := len(cw.dev.(*c16Dev).stream)
		_, err := cw.Write(p)
		vAssert(err == nil, "write succeeds")
		c16EncLens = append(c16EncLens, len(cw.dev.(*c16Dev).stream)-before-1)
	}
	return frames
}

// c16EncLens: length of each frame c16Frames wrote as it went on the line
// (code bytes, payload and delimiter, without the leading NUL).
var c16EncLens []int

// HarnessC16Clean: every segmentation of a clean stream.
func HarnessC16Clean() {
	dev := &c16Dev{maxCut: vParam("cuts", 64)}
	cw := NewCobsWrapper(dev, 64)
	frames := c16Frames(cw, vParam("frames", 2), vParam("flen", 2))
	for i := range frames {
		buf := make([]byte, 64)
		c, err := cw.Read(buf)
		vAssert(err == nil, "clean stream: Read returns no error")
		vAssert(c16Equal(buf[:c], frames[i]), "clean stream: Read returns the frames written, intact, in order")
	}
	vCover("clean: all frames read")
	buf := make([]byte, 64)
	_, err := cw.Read(buf)
	vAssert(err != nil, "clean stream: nothing is delivered twice (end of stream after the last frame)")
}

// HarnessC16Prefix: the stream starts with arbitrary garbage (whatever an
// earlier history left), then a delimiter, then clean frames: every clean
// frame is delivered intact after at most runs(G)+1 calls.
func HarnessC16Prefix() {
	dev := &c16Dev{maxCut: vParam("cuts", 3)}
	g := vChoose(vParam("glen", 3) + 1)
	garbage := vBytes(g)
	dev.stream = append(dev.stream, garbage...)
	dev.stream = append(dev.stream, 0)
	cw := NewCobsWrapper(dev, 64)
	frames := c16Frames(cw, vParam("frames", 1), vParam("flen", 2))
	// number of zero-delimited non-empty runs in the garbage
	runs := 0
	inRun := false
	for _, b := range garbage {
		if b != 0 {
			if !inRun {
				runs++
			}
			inRun = true
		} else {
			inRun = false
		}
	}
	// Each call may deliver a garbage run (as an error or as whatever it
	// happens to decode to); the clean frames must be the last successful
	// reads, intact and in order, and the stream must then be exhausted.
	var got [][]byte
	for call := 0; call < runs+len(frames)+1; call++ {
		buf := make([]byte, 64)
		c, err := cw.Read(buf)
		if err == nil {
			got = append(got, append([]byte{}, buf[:c]...))
		}
	}
	vAssert(len(got) >= len(frames), "garbage prefix: every clean frame after the delimiter is delivered")
	vAssert(len(got) <= runs+len(frames), "garbage prefix: nothing is delivered twice")
	for i := range frames {
		vAssert(c16Equal(got[len(got)-len(frames)+i], frames[i]), "garbage prefix: the clean frames are delivered intact, in order, after the garbage")
	}
	vCover("prefix: done")
}

// HarnessC16Damage: one byte of the first frame is replaced, deleted or a
// byte is inserted; the frames after the next delimiter arrive intact.
func HarnessC16Damage() {
	dev := &c16Dev{maxCut: vParam("cuts", 2)}
	cw := NewCobsWrapper(dev, 64)
	frames := c16Frames(cw, 2, vParam("flen", 2))
	// length of the first encoded frame on the wire: leading 0 + code bytes + payload + trailing 0
	first := 1 + c16EncLens[0]
	pos := vChoose(first)
	kind := vChoose(3)
	s := dev.stream
	var d []byte
	switch kind {
	case 0: // replace
		d = append(d, s[:pos]...)
		d = append(d, vU8())
		d = append(d, s[pos+1:]...)
	case 1: // delete
		d = append(d, s[:pos]...)
		d = append(d, s[pos+1:]...)
	case 2: // insert
		d = append(d, s[:pos]...)
		d = append(d, vU8())
		d = append(d, s[pos:]...)
	}
	dev.stream = d
	// the second frame starts after the delimiter that ends the (damaged)
	// first frame region; it must be returned intact by one of the next 4 calls.
	// Parameter "tight": the caller's buffer is exactly as large as the longest
	// undamaged encoded frame, so an inserted byte makes a frame one byte too long.
	bufLen := 64
	if vParam("tight", 0) == 1 {
		bufLen = 0
		for _, e := range c16EncLens {
			if e > bufLen {
				bufLen = e
			}
		}
	}
	var got [][]byte
	for call := 0; call < 4; call++ {
		buf := make([]byte, bufLen)
		c, err := cw.Read(buf)
		if err == nil {
			got = append(got, append([]byte{}, buf[:c]...))
		}
	}
	vAssert(len(got) >= 1 && len(got) <= 3, "damage: the following frame is delivered and nothing is delivered twice")
	vAssert(c16Equal(got[len(got)-1], frames[1]), "damage: the frame after the damaged one is delivered intact")
	vCover("damage: done")
}

// HarnessC16LongRun: frames around the 254-byte block boundary of COBS: a run
// of 253..255 (parameter "runs": also 507..509) non-zero bytes followed by
// 0..2 arbitrary bytes goes through the real Write and Read and comes back
// intact.
func HarnessC16LongRun() {
	base := 253
	if vParam("runs", 1) == 2 && vChoose(2) == 1 {
		base = 507
	}
	run := base + vChoose(3)
	tail := vChoose(vParam("tail", 2) + 1)
	p := vBytes(run + tail)
	for i := 0; i < run; i++ {
		vAssume(p[i] != 0)
	}
	orig := append([]byte{}, p...)
	dev := &c16Dev{maxCut: 0}
	cw := NewCobsWrapper(dev, 1024)
	_, err := cw.Write(p)
	vAssert(err == nil, "write succeeds")
	buf := make([]byte, 1024)
	c, err := cw.Read(buf)
	vAssert(err == nil, "long run: Read returns no error")
	vAssert(c == len(orig), "long run: the frame comes back with its length")
	vAssert(c16Equal(buf[:c], orig), "long run: the frame written is returned intact")
	vCover("long run: done")
}
