package client

// A miniature node store for the client-package harnesses (the real store
// cannot be imported here: it imports package client). It answers
// nodes.<parent>.<id> requests and accepts acknowledged p.<id> and
// p.<id>.<parent> writes with the store's documented semantics (newest point
// per identity wins, empty key = "0", zero time = now, a node-type point
// creates the placement). It is the C01 post-condition used as a summary.

import (
	"strings"
	"sync"
	"time"

	"github.com/nats-io/nats.go"
	"github.com/simpleiot/simpleiot/data"
	"github.com/simpleiot/simpleiot/internal/pb"
	"google.golang.org/protobuf/proto"
)

type vNodePts struct {
	id  string
	pts data.Points
}

type vNodeSrv struct {
	mu     sync.Mutex
	nc     *nats.Conn
	nodes  []data.NodeEdge // placements: ID, Parent, Type, EdgePoints (Points unused)
	points []vNodePts      // node points per node id
	root   string
	writes []string // subjects of accepted writes, in order
}

// vServeNodes starts a node store holding the given placements (their Points
// become the node's points).
func vServeNodes(nc *nats.Conn, root string, nodes []data.NodeEdge) *vNodeSrv {
	s := &vNodeSrv{nc: nc, root: root}
	for _, n := range nodes {
		if len(n.Points) > 0 {
			s.nodePoints(n.ID, true).pts = append(data.Points{}, n.Points...)
		}
		n.Points = nil
		s.nodes = append(s.nodes, n)
	}
	vServe(nc, "nodes.*.*", s.handle)
	vServe(nc, "p.*", s.handleNodePoints)
	vServe(nc, "p.*.*", s.handleEdgePoints)
	return s
}

func (s *vNodeSrv) nodePoints(id string, create bool) *vNodePts {
	for i := range s.points {
		if s.points[i].id == id {
			return &s.points[i]
		}
	}
	if !create {
		return nil
	}
	s.points = append(s.points, vNodePts{id: id})
	return &s.points[len(s.points)-1]
}

func vMergePoints(have data.Points, in data.Points) data.Points {
	for _, p := range in {
		if p.Key == "" {
			p.Key = "0"
		}
		if p.Time.IsZero() {
			p.Time = time.Now()
		}
		found := false
		for i := range have {
			if have[i].Type == p.Type && have[i].Key == p.Key {
				found = true
				if !p.Time.Before(have[i].Time) {
					have[i] = p
				}
			}
		}
		if !found {
			have = append(have, p)
		}
	}
	return have
}

func (s *vNodeSrv) handleNodePoints(msg *nats.Msg) {
	s.mu.Lock()
	defer s.mu.Unlock()
	id := strings.Split(msg.Subject, ".")[1]
	pts, err := data.PbDecodePoints(msg.Data)
	if err != nil {
		_ = msg.Respond([]byte("decode error"))
		return
	}
	np := s.nodePoints(id, true)
	np.pts = vMergePoints(np.pts, pts)
	s.writes = append(s.writes, msg.Subject)
	if msg.Reply != "" {
		_ = msg.Respond(nil)
	}
}

func (s *vNodeSrv) handleEdgePoints(msg *nats.Msg) {
	s.mu.Lock()
	defer s.mu.Unlock()
	ch := strings.Split(msg.Subject, ".")
	id, parent := ch[1], ch[2]
	pts, err := data.PbDecodePoints(msg.Data)
	if err != nil {
		_ = msg.Respond([]byte("decode error"))
		return
	}
	typ := ""
	var store data.Points
	for _, p := range pts {
		if p.Type == data.PointTypeNodeType {
			typ = p.Text
			continue
		}
		store = append(store, p)
	}
	idx := -1
	for i := range s.nodes {
		if s.nodes[i].ID == id && s.nodes[i].Parent == parent {
			idx = i
		}
	}
	if idx < 0 {
		if typ == "" {
			if msg.Reply != "" {
				_ = msg.Respond([]byte("Node type must be sent with new edges"))
			}
			return
		}
		s.nodes = append(s.nodes, data.NodeEdge{ID: id, Parent: parent, Type: typ})
		idx = len(s.nodes) - 1
	}
	s.nodes[idx].EdgePoints = vMergePoints(s.nodes[idx].EdgePoints, store)
	s.writes = append(s.writes, msg.Subject)
	if msg.Reply != "" {
		_ = msg.Respond(nil)
	}
}

// query returns the placements matching a nodes.<parent>.<id> request.
func (s *vNodeSrv) query(parent, id, typ string, includeDel bool) data.Nodes {
	var out data.Nodes
	for _, n := range s.nodes {
		switch {
		case parent == "root":
			if n.ID != s.root {
				continue
			}
		case parent == "all":
			if n.ID != id {
				continue
			}
		case id == "all":
			if n.Parent != parent {
				continue
			}
		default:
			if n.Parent != parent || n.ID != id {
				continue
			}
		}
		if typ != "" && n.Type != typ {
			continue
		}
		if del, _ := n.IsTombstone(); del && !includeDel {
			continue
		}
		if np := s.nodePoints(n.ID, false); np != nil {
			n.Points = append(data.Points{}, np.pts...)
		}
		n.EdgePoints = append(data.Points{}, n.EdgePoints...)
		n.Hash = s.hash(n.Parent, n.ID)
		out = append(out, n)
	}
	return out
}

func (s *vNodeSrv) handle(msg *nats.Msg) {
	s.mu.Lock()
	defer s.mu.Unlock()
	chunks := strings.Split(msg.Subject, ".")
	parent, id := chunks[1], chunks[2]
	typ, includeDel := "", false
	if len(msg.Data) > 0 {
		pts, err := data.PbDecodePoints(msg.Data)
		if err == nil {
			for _, p := range pts {
				switch p.Type {
				case data.PointTypeTombstone:
					includeDel = data.FloatToBool(p.Value)
				case data.PointTypeNodeType:
					typ = p.Text
				}
			}
		}
	}
	out := s.query(parent, id, typ, includeDel)
	resp := &pb.NodesRequest{}
	resp.Nodes, _ = out.ToPbNodes()
	b, _ := proto.Marshal(resp)
	_ = msg.Respond(b)
}

// hash is the Merkle hash of a placement by the documented definition.
func (s *vNodeSrv) hash(parent, id string) uint32 {
	var h uint32
	if np := s.nodePoints(id, false); np != nil {
		for _, p := range np.pts {
			h ^= p.CRC()
		}
	}
	for _, n := range s.nodes {
		if n.ID == id && n.Parent == parent {
			for _, p := range n.EdgePoints {
				h ^= p.CRC()
			}
		}
		if n.Parent == id {
			h ^= s.hash(id, n.ID)
		}
	}
	return h
}
