package client

// A miniature node store answering nodes.<parent>.<id> requests from a fixed
// list of node placements; used by the client-package harnesses (the real
// store cannot be imported here: it imports package client).

import (
	"strings"
	"sync"

	"github.com/nats-io/nats.go"
	"github.com/simpleiot/simpleiot/data"
	"github.com/simpleiot/simpleiot/internal/pb"
	"google.golang.org/protobuf/proto"
)

type vNodeSrv struct {
	mu    sync.Mutex
	nc    *nats.Conn
	nodes []data.NodeEdge
	root  string
}

func vServeNodes(nc *nats.Conn, root string, nodes []data.NodeEdge) *vNodeSrv {
	s := &vNodeSrv{nc: nc, nodes: nodes, root: root}
	vServe(nc, "nodes.*.*", s.handle)
	return s
}

func (s *vNodeSrv) handle(msg *nats.Msg) {
	s.mu.Lock()
	defer s.mu.Unlock()
	chunks := strings.Split(msg.Subject, ".")
	parent, id := chunks[1], chunks[2]
	typ, includeDel := "", false
	if len(msg.Data) > 0 {
		pts, err := data.PbDecodePoints(msg.Data)
		if err == nil {
			for _, p := range pts {
				switch p.Type {
				case data.PointTypeTombstone:
					includeDel = data.FloatToBool(p.Value)
				case data.PointTypeNodeType:
					typ = p.Text
				}
			}
		}
	}
	var out data.Nodes
	for _, n := range s.nodes {
		switch {
		case parent == "root":
			if n.ID != s.root {
				continue
			}
		case parent == "all":
			if n.ID != id {
				continue
			}
		case id == "all":
			if n.Parent != parent {
				continue
			}
		default:
			if n.Parent != parent || n.ID != id {
				continue
			}
		}
		if typ != "" && n.Type != typ {
			continue
		}
		if del, _ := n.IsTombstone(); del && !includeDel {
			continue
		}
		out = append(out, n)
	}
	resp := &pb.NodesRequest{}
	resp.Nodes, _ = out.ToPbNodes()
	b, _ := proto.Marshal(resp)
	_ = s.nc.Publish(msg.Reply, b)
}
