package client

// Translator self-test (see harness/modbus/zz_verif_self.go): vectors of the
// repository's own tests (cobs-wrapper_test.go, serial-wrapper_test.go,
// schedule_test.go) through the real functions, under the engine and natively.

import (
	"time"

	"github.com/simpleiot/simpleiot/data"
)

func init() {
	vRegister("HarnessSelfClient", HarnessSelfClient)
}

func HarnessSelfClient() {
	// COBS vectors (https://en.wikipedia.org/wiki/Consistent_Overhead_Byte_Stuffing)
	cases := []struct{ dec, enc []byte }{
		{[]byte{0x0}, []byte{0x1, 0x1, 0x0}},
		{[]byte{0x0, 0x0}, []byte{0x1, 0x1, 0x1, 0x0}},
		{[]byte{0x0, 0x11, 0x0}, []byte{0x1, 0x2, 0x11, 0x1, 0x0}},
		{[]byte{0x11, 0x22, 0x00, 0x33}, []byte{0x3, 0x11, 0x22, 0x2, 0x33, 0x00}},
		{[]byte{0x11, 0x22, 0x33, 0x44}, []byte{0x5, 0x11, 0x22, 0x33, 0x44, 0x00}},
		{[]byte{0x11, 0x00, 0x00, 0x00}, []byte{0x2, 0x11, 0x1, 0x1, 0x1, 0x00}},
	}
	for _, tc := range cases {
		dev := &c16Dev{}
		_, err := NewCobsWrapper(dev, 64).Write(tc.dec)
		vAssert(err == nil && c16Equal(dev.stream, append([]byte{0}, tc.enc...)), "self: COBS encoding of the reference vectors")
		e := append([]byte{}, tc.enc...)
		c, err := cobsDecodeInplace(e)
		vAssert(err == nil && c16Equal(e[:c], tc.dec), "self: COBS decoding of the reference vectors")
	}

	// serial packet layout
	d, err := SerialEncode(123, "test/subject/23", nil)
	vAssert(err == nil && len(d) == 19 && d[0] == 123 && string(d[1:16]) == "test/subject/23" && d[16] == 0, "self: serial packet layout")
	seq, subj, payload, err := SerialDecode(d)
	vAssert(err == nil && seq == 123 && subj == "test/subject/23" && len(payload) == 0, "self: serial packet decodes")
	d[2] ^= 0x01
	_, _, _, err = SerialDecode(d)
	vAssert(err != nil, "self: a flipped bit is detected")
	pts := data.Points{{Type: data.PointTypeValue, Value: 23.5}}
	d, err = SerialEncode(68, "", pts)
	vAssert(err == nil, "self: points packet encodes")
	seq, subj, payload, err = SerialDecode(d)
	vAssert(err == nil && seq == 68 && subj == "", "self: points packet decodes")
	back, err := data.PbDecodeSerialPoints(payload)
	vAssert(err == nil && len(back) == 1 && back[0].Type == data.PointTypeValue && back[0].Value == 23.5, "self: points survive the packet")

	// schedule_test.go
	at := func(s *schedule, y int, m time.Month, d, h int) bool {
		a, err := s.activeForTime(time.Date(y, m, d, h, 0, 0, 0, time.UTC))
		vAssert(err == nil, "self: schedule evaluates")
		return a
	}
	s := newSchedule("2:00", "5:00", []time.Weekday{}, nil)
	vAssert(at(s, 2021, time.February, 10, 4) && !at(s, 2021, time.February, 10, 5), "self: TestScheduleAllDays")
	s = newSchedule("2:00", "5:00", []time.Weekday{0, 6}, nil)
	vAssert(at(s, 2021, time.August, 8, 4) && !at(s, 2021, time.August, 10, 4), "self: TestScheduleWeekdays")
	s = newSchedule("20:00", "2:00", []time.Weekday{}, nil)
	vAssert(at(s, 2021, time.August, 9, 21) && at(s, 2021, time.August, 9, 1), "self: TestScheduleWrapDay")
	s = newSchedule("20:00", "2:00", []time.Weekday{1}, nil)
	vAssert(at(s, 2021, time.August, 9, 21) && !at(s, 2021, time.August, 9, 1) && at(s, 2021, time.August, 10, 1), "self: TestScheduleWrapDayWeekday")
	s = newSchedule("2:00", "5:00", nil, []string{"2021-08-01", "2021-08-09", "2021-08-15"})
	vAssert(at(s, 2021, time.August, 1, 4) && at(s, 2021, time.August, 9, 4) && !at(s, 2021, time.August, 10, 4) && at(s, 2021, time.August, 15, 4) && !at(s, 2023, time.August, 15, 4), "self: TestScheduleDates")
	vCover("self client: done")
}
