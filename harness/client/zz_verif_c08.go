package client

// C08 — a client is told of every foreign change to its subtree, never its own.
//
// Real code: (*Manager[T]).scan / scanHelper, newClientState, the per-client
// subscription closure (origin echo filter, node vs edge points), GetNodes,
// data.Decode / MergePoints. The goroutine schedule of Manager.Run is not
// encoded (C07); this harness drives scan once and then delivers one batch.

import (
	"sync"

	"github.com/nats-io/nats.go"
	"github.com/simpleiot/simpleiot/data"
)

func init() {
	vRegister("HarnessC08Deliver", HarnessC08Deliver)
}

// VCli is the instrumented client type managed in this harness.
type VCli struct {
	ID          string  `node:"id"`
	Parent      string  `node:"parent"`
	Description string  `point:"description"`
	Value       float64 `point:"value"`
}

type vCliClient struct {
	mu       sync.Mutex
	cfg      VCli
	stop     chan struct{}
	pointIDs []string
	points   [][]data.Point
	edgeIDs  []string
	edges    [][]data.Point
}

func (c *vCliClient) Run() error { <-c.stop; return nil }
func (c *vCliClient) Stop(error) { close(c.stop) }
func (c *vCliClient) Points(id string, pts []data.Point) {
	c.mu.Lock()
	defer c.mu.Unlock()
	c.pointIDs = append(c.pointIDs, id)
	c.points = append(c.points, append([]data.Point{}, pts...))
	_ = data.MergePoints(id, pts, &c.cfg)
}
func (c *vCliClient) EdgePoints(id, parent string, pts []data.Point) {
	c.mu.Lock()
	defer c.mu.Unlock()
	c.edgeIDs = append(c.edgeIDs, id+"."+parent)
	c.edges = append(c.edges, append([]data.Point{}, pts...))
}

func c08Name() string {
	s := vStr(vChoose(2))
	for i := 0; i < len(s); i++ {
		vAssume(s[i] == 'c' || s[i] == 'd' || s[i] == 'x')
	}
	return s
}

func HarnessC08Deliver() {
	nc := vConn()
	t0 := vInstant(19886, 0, 0, 0)
	// stored state of the client nodes: c (with a child k) and, with two
	// clients, a sibling d of the same type
	two := vParam("clients", 1) == 2
	v0 := vF64()
	vAssume(v0 == v0)
	d0 := vStr(1)
	tree := []data.NodeEdge{
		{ID: "root0", Parent: "root", Type: data.NodeTypeDevice},
		{ID: "c", Parent: "root0", Type: "vCli", Points: data.Points{
			{Type: "value", Key: "0", Time: t0, Value: v0},
			{Type: "description", Key: "0", Time: t0, Text: d0},
		}},
		{ID: "k", Parent: "c", Type: "other"},
	}
	if two {
		tree = append(tree, data.NodeEdge{ID: "d", Parent: "root0", Type: "vCli", Points: data.Points{
			{Type: "value", Key: "0", Time: t0, Value: v0},
			{Type: "description", Key: "0", Time: t0, Text: d0},
		}})
	}
	vServeNodes(nc, "root0", tree)

	var made []*vCliClient
	m := NewManager(nc, func(_ *nats.Conn, cfg VCli) Client {
		cl := &vCliClient{cfg: cfg, stop: make(chan struct{})}
		made = append(made, cl)
		return cl
	}, nil)
	m.root = "root0"
	err := m.scan("root0")
	vAssert(err == nil, "scan succeeds")
	if !two {
		vAssert(len(made) == 1, "exactly one client is constructed for the one live node of the type")
	} else {
		vAssert(len(made) == 2 && made[0].cfg.ID != made[1].cfg.ID, "one client is constructed per live node of the type")
	}
	for _, cl := range made {
		vAssert((cl.cfg.ID == "c" || (two && cl.cfg.ID == "d")) && cl.cfg.Parent == "root0" && cl.cfg.Value == v0 && cl.cfg.Description == d0, "the client is constructed from the node's current points")
	}

	// one batch from one author (one origin) for a client's node or a child;
	// the store republishes it on the subject of the node and of every ancestor
	origin := c08Name()
	targets := []string{"c", "k"}
	if two {
		targets = append(targets, "d")
	}
	target := targets[vChoose(len(targets))]
	edge := vBool()
	var batch data.Points
	hour := 1
	for i, n := 0, 1+vChoose(vParam("batch", 2)); i < n; i++ {
		// non-decreasing timestamps: the next point is later or carries the same time
		hour += vChoose(2)
		p := data.Point{Type: []string{"value", "description", "zz"}[vChoose(3)], Key: "0", Time: vInstant(19886, hour, 0, 0), Value: vF64(), Text: vStr(1), Origin: origin}
		vAssume(p.Value == p.Value)
		batch = append(batch, p)
	}
	payload, err := batch.ToPb()
	vAssume(err == nil)
	chain := map[string][]string{"c": {"c", "root0"}, "k": {"k", "c", "root0"}, "d": {"d", "root0"}}[target]
	parent := map[string]string{"c": "root0", "k": "c", "d": "root0"}[target]
	for _, anc := range chain {
		subject := "up." + anc + "." + target
		if edge {
			subject += "." + parent
		}
		vPublish(nc, subject, payload)
	}

	for _, cl := range made {
		c08Check(cl, origin, target, parent, edge, batch, v0, d0)
	}
}

func c08Check(cl *vCliClient, origin, target, parent string, edge bool, batch data.Points, v0 float64, d0 string) {
	cl.mu.Lock()
	defer cl.mu.Unlock()
	id := cl.cfg.ID
	below := target == id || (id == "c" && target == "k")
	if !below {
		vCover("c08: outside the subtree")
		vAssert(len(cl.points) == 0 && len(cl.edges) == 0, "a client is not told of changes outside its subtree")
		return
	}
	if edge {
		vCover("c08: edge points")
		vAssert(len(cl.points) == 0, "edge points are not delivered as node points")
		vAssert(len(cl.edges) == 1 && cl.edgeIDs[0] == target+"."+parent, "edge points below the client are passed through once")
		vAssert(len(cl.edges[0]) == len(batch), "edge batch is passed through whole")
		return
	}
	own := origin == id || (origin == "" && target == id)
	if own {
		vCover("c08: own points filtered")
		vAssert(len(cl.points) == 0 && len(cl.edges) == 0, "a client is never told of points it authored itself")
		return
	}
	vCover("c08: foreign points delivered")
	vAssert(len(cl.points) == 1 && cl.pointIDs[0] == target, "a foreign batch for the client's node or a descendant is delivered exactly once")
	vAssert(len(cl.points[0]) == len(batch), "the batch is delivered whole")
	for i := range batch {
		g := cl.points[0][i]
		vAssert(g.Type == batch[i].Type && g.Value == batch[i].Value && g.Text == batch[i].Text && g.Origin == batch[i].Origin && g.Time.Equal(batch[i].Time), "delivered points are the accepted points, in order")
	}
	if target == id {
		// folding the batch gives what the store holds: newest per identity
		wantV, wantD := v0, d0
		for _, p := range batch {
			if p.Type == "value" {
				wantV = p.Value
			}
			if p.Type == "description" {
				wantD = p.Text
			}
		}
		vAssert(cl.cfg.Value == wantV && cl.cfg.Description == wantD, "a client that folds what it is told holds what the store holds for its node")
	}
}
