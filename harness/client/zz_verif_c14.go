package client

// C14 — schedule windows: UTC, midnight wrap, qualified by the start day.
//
// Real code: (*schedule).activeForTime, timeRange.in, timeRanges.in /
// filterDates / filterWeekdays. The oracle restates the property with the
// time package: a day D (UTC) allowed by both filters with
// start(D) <= t < end(D or D+1).

import "time"

func init() {
	vRegister("HarnessC14Schedule", HarnessC14Schedule)
}

// anchor days (days since 1970-01-01): epoch edge, month/year ends, leap days,
// a week end and a mid-week day
var c14Days = []int{-1, 0, 19416, 19417, 19722, 19723, 19781, 19782, 19783, 19843, 19886, 19889, 19890, 47540, 47541}

func HarnessC14Schedule() {
	day := c14Days[vChoose(len(c14Days))]
	sec := vRange(0, 86399)
	ns := vRange(0, 999999999)
	off := 0
	if vBool() {
		off = vRange(-50400, 50400)
		vAssume(off != 0)
		vCover("schedule: zoned instant")
	}
	t := vInstant(day, sec, ns, off)

	sh, sm, eh, em := vRange(0, 23), vRange(0, 59), vRange(0, 23), vRange(0, 59)
	var wds []time.Weekday
	for i, n := 0, vChoose(vParam("wd", 2)+1); i < n; i++ {
		wds = append(wds, time.Weekday(vRange(0, 6)))
	}
	type ymd struct{ y, m, d int }
	var dates []string
	var dl []ymd
	for i, n := 0, vChoose(vParam("dates", 2)+1); i < n; i++ {
		x := ymd{vRange(1969, 2101), vRange(1, 12), vRange(1, 31)}
		dl = append(dl, x)
		dates = append(dates, vDateStr(x.y, x.m, x.d))
	}
	s := newSchedule(vHourMin(sh, sm), vHourMin(eh, em), wds, dates)

	got, err := s.activeForTime(t)
	vAssert(err == nil, "well-formed schedule evaluates without error")

	// oracle
	var dl3 [][3]int
	for _, x := range dl {
		dl3 = append(dl3, [3]int{x.y, x.m, x.d})
	}
	want := c14Want(t, sh, sm, eh, em, wds, dl3)
	if want {
		vCover("schedule: active")
	} else {
		vCover("schedule: inactive")
	}
	vAssert(got == want, "schedule is active exactly when t lies in a window whose start day passes the filters")
}

// c14Want restates the property with the time package: a day D (UTC) allowed
// by both filters with start(D) <= t < end(D or D+1).
func c14Want(t time.Time, sh, sm, eh, em int, wds []time.Weekday, dl [][3]int) bool {
	tu := t.UTC()
	mid := time.Date(tu.Year(), tu.Month(), tu.Day(), 0, 0, 0, 0, time.UTC)
	want := false
	for k := 0; k < 2; k++ {
		d0 := mid.AddDate(0, 0, -k)
		y, mo, dd := d0.Year(), int(d0.Month()), d0.Day()
		okWd := len(wds) == 0
		for _, w := range wds {
			if w == d0.Weekday() {
				okWd = true
			}
		}
		okDate := len(dl) == 0
		for _, x := range dl {
			if x[0] == y && x[1] == mo && x[2] == dd {
				okDate = true
			}
		}
		if !okWd || !okDate {
			continue
		}
		st := time.Date(y, time.Month(mo), dd, sh, sm, 0, 0, time.UTC)
		en := time.Date(y, time.Month(mo), dd, eh, em, 0, 0, time.UTC)
		if !en.After(st) {
			en = en.AddDate(0, 0, 1)
			vCover("schedule: wrapping window")
		}
		if !t.Before(st) && t.Before(en) {
			want = true
		}
	}
	return want
}
