package client

// C13 — a rule is active exactly when all of its conditions hold.
//
// Real code: (*RuleClient).Run (one batch through the real select loop),
// ruleProcessPoints, ruleRunActions, ruleInactiveActions, sendPoint,
// processError, SendNodePoint/SendPoints. NATS and protobuf are engine stubs;
// natively an in-process nats-server.

import (
	"math"
	"time"

	"github.com/simpleiot/simpleiot/data"
)

func init() {
	vRegister("HarnessC13Rule", HarnessC13Rule)
	vRegister("HarnessC13Schedule", HarnessC13Schedule)
}

// c13Name: "" or a one-letter name over {a, b}
func c13Name() string {
	s := vStr(vChoose(2))
	for i := 0; i < len(s); i++ {
		vAssume(s[i] == 'a' || s[i] == 'b')
	}
	return s
}

// c13Letter: a one-letter name over {a, b}
func c13Letter() string {
	s := vStr(1)
	vAssume(s[0] == 'a' || s[0] == 'b')
	return s
}

func c13Text(max int) string {
	s := vStr(vChoose(max + 1))
	for i := 0; i < len(s); i++ {
		vAssume(s[i] == 'x' || s[i] == 'y')
	}
	return s
}

func c13Contains(s, sub string) bool {
	for i := 0; i+len(sub) <= len(s); i++ {
		if s[i:i+len(sub)] == sub {
			return true
		}
	}
	return false
}

func c13Cond(id string) Condition {
	c := Condition{ID: id, Parent: "r", ConditionType: data.PointValuePointValue, Active: vBool()}
	c.NodeID, c.PointType, c.PointKey = c13Name(), c13Name(), c13Name()
	switch vChoose(3) {
	case 0:
		c.ValueType = data.PointValueNumber
		c.Operator = []string{">", "<", "=", "!=", "~"}[vChoose(5)]
		c.Value = vF64()
	case 1:
		c.ValueType = data.PointValueOnOff
		c.Value = vF64()
	case 2:
		c.ValueType = data.PointValueText
		c.Operator = []string{"=", "!=", "contains", "~"}[vChoose(4)]
		c.ValueText = c13Text(vParam("text", 1))
	}
	return c
}

// c13Eval is the documented comparison of one matching point.
func c13Eval(c Condition, p data.Point) bool {
	switch c.ValueType {
	case data.PointValueNumber:
		switch c.Operator {
		case ">":
			return p.Value > c.Value
		case "<":
			return p.Value < c.Value
		case "=":
			return p.Value == c.Value
		case "!=":
			return p.Value != c.Value
		}
	case data.PointValueOnOff:
		return (c.Value != 0) == (p.Value != 0)
	case data.PointValueText:
		switch c.Operator {
		case "=":
			return p.Text == c.ValueText
		case "!=":
			return p.Text != c.ValueText
		case "contains":
			return c13Contains(p.Text, c.ValueText)
		}
	}
	return false
}

type c13Sent struct {
	subject string
	p       data.Point
}

func HarnessC13Rule() {
	nc := vConn()
	cfg := Rule{ID: "r", Parent: "parent", Active: vBool()}
	nCond := 1 + vChoose(vParam("conds", 1))
	for i := 0; i < nCond; i++ {
		cfg.Conditions = append(cfg.Conditions, c13Cond([]string{"c0", "c1"}[i]))
	}
	target := "t"
	if vBool() {
		target = "r" // the rule's own node
	}
	act := Action{ID: "a0", Parent: "r", Action: data.PointValueSetValue, NodeID: target, PointType: "v", Value: vF64(), ValueText: vStr(1), Active: vBool()}
	inact := Action{ID: "i0", Parent: "r", Action: data.PointValueSetValue, NodeID: target, PointType: "w", Value: vF64(), ValueText: vStr(1), Active: vBool()}
	cfg.Actions = []Action{act}
	cfg.ActionsInactive = []Action{inact}
	conds := append([]Condition{}, cfg.Conditions...)
	ruleWas := cfg.Active

	// one incoming batch from one node
	nodeID := c13Letter()
	var pts data.Points
	for i, n := 0, 1+vChoose(vParam("points", 1)); i < n; i++ {
		pts = append(pts, data.Point{Type: c13Letter(), Key: c13Name(), Value: vF64(), Text: c13Text(vParam("text", 1))})
	}
	batch := append(data.Points{}, pts...)

	rc := NewRuleClient(nc, cfg).(*RuleClient)
	vGo(func() {
		rc.newRulePoints <- NewPoints{ID: nodeID, Points: pts}
		close(rc.stop)
	})
	err := rc.Run()
	vAssert(err == nil, "rule client runs and stops cleanly")

	// expected condition states: the last matching point decides
	want := make([]bool, nCond)
	for i, c := range conds {
		want[i] = c.Active
		for _, p := range batch {
			if c.NodeID != "" && c.NodeID != nodeID {
				continue
			}
			if c.PointKey != "" && c.PointKey != p.Key {
				continue
			}
			if c.PointType != "" && c.PointType != p.Type {
				continue
			}
			want[i] = c13Eval(c, p)
		}
	}
	all := true
	for i := range want {
		if !want[i] {
			all = false
		}
	}
	for i := range want {
		vAssert(rc.config.Conditions[i].Active == want[i], "condition is active exactly when its latest matching point satisfies the comparison")
	}
	vAssert(rc.config.Active == all, "rule is active exactly when all conditions are")

	// everything the rule wrote to the bus
	var sent []c13Sent
	for _, e := range vEvents(nc) {
		if e.Kind != "pub" {
			continue
		}
		ps, derr := data.PbDecodePoints(e.Data)
		vAssert(derr == nil, "rule publishes decodable points")
		for _, p := range ps {
			sent = append(sent, c13Sent{e.Subject, p})
		}
	}
	count := func(subject, typ string) (n int, last data.Point) {
		for _, s := range sent {
			if s.subject == subject && s.p.Type == typ {
				n++
				last = s.p
			}
		}
		return
	}
	b2f := func(b bool) float64 {
		if b {
			return 1
		}
		return 0
	}
	for i, c := range conds {
		n, last := count("p."+c.ID, data.PointTypeActive)
		if want[i] != c.Active {
			vAssert(n >= 1 && last.Value == b2f(want[i]), "a condition's change of state is written to the condition node")
		} else if n > 0 {
			vAssert(last.Value == b2f(want[i]), "the condition node is never left with a wrong active value")
		}
	}
	changed := all != ruleWas
	nRule, lastRule := count("p.r", data.PointTypeActive)
	if changed {
		vCover("rule: state changed")
		vAssert(nRule == 1 && lastRule.Value == b2f(all), "a change of the rule's state is written to the rule node once")
	} else {
		vCover("rule: state unchanged")
		vAssert(nRule == 0, "no rule state point without a change")
	}
	run, other := act, inact
	if !all {
		run, other = inact, act
	}
	nSet, set := count("p."+target, run.PointType)
	nOtherSet, _ := count("p."+target, other.PointType)
	nRunAct, runAct := count("p."+run.ID, data.PointTypeActive)
	nOtherAct, otherAct := count("p."+other.ID, data.PointTypeActive)
	if changed {
		vAssert(nSet == 1, "on a change of state the corresponding action list runs exactly once")
		vAssert(math.Float64bits(set.Value) == math.Float64bits(run.Value) && set.Text == run.ValueText, "a set-value action writes the configured value and text to the target node")
		if target != "r" {
			vAssert(set.Origin == "r", "a set-value action carries the rule as origin")
		}
		vAssert(nOtherSet == 0, "the opposite action list does not run")
		vAssert(nRunAct == 1 && runAct.Value == 1, "the action that ran is marked active")
		vAssert(nOtherAct == 1 && otherAct.Value == 0, "the opposite list is marked inactive")
	} else {
		vAssert(nSet == 0 && nOtherSet == 0 && nRunAct == 0 && nOtherAct == 0, "no action traffic without a change of the rule's state")
	}
}

// HarnessC13Schedule: a rule with one schedule condition (optionally next to
// an already satisfied point condition) processes one trigger point: the
// condition is active exactly when the trigger time falls in the window, the
// rule follows, and a change of state is written out once.
func HarnessC13Schedule() {
	nc := vConn()
	sh, sm, eh, em := vRange(0, 23), vRange(0, 59), vRange(0, 23), vRange(0, 59)
	wd := vChoose(8) // 7: every day
	var wds []time.Weekday
	weekdays := make([]bool, 7)
	if wd < 7 {
		weekdays[wd] = true
		wds = []time.Weekday{time.Weekday(wd)}
	}
	sc := Condition{ID: "c0", Parent: "r", ConditionType: data.PointValueSchedule, Start: vHourMin(sh, sm), End: vHourMin(eh, em), Weekdays: weekdays, Active: vBool()}
	cfg := Rule{ID: "r", Parent: "parent", Active: vBool(), Conditions: []Condition{sc}}
	other := vBool()
	otherActive := false
	if other {
		otherActive = vBool()
		cfg.Conditions = append(cfg.Conditions, Condition{ID: "c1", Parent: "r", ConditionType: data.PointValuePointValue, ValueType: data.PointValueOnOff, Value: 1, NodeID: "zz", Active: otherActive})
	}
	act := Action{ID: "a0", Parent: "r", Action: data.PointValueSetValue, NodeID: "t", PointType: "v", Value: 1, Active: vBool()}
	inact := Action{ID: "i0", Parent: "r", Action: data.PointValueSetValue, NodeID: "t", PointType: "w", Value: 1, Active: vBool()}
	cfg.Actions, cfg.ActionsInactive = []Action{act}, []Action{inact}
	condWas, ruleWas := sc.Active, cfg.Active

	// the trigger instant: any second of a few anchor days, in UTC or in another zone
	day := []int{19886, 19889, 19782, 19783}[vChoose(4)]
	off := 0
	if vBool() {
		off = vRange(-50400, 50400)
		vAssume(off != 0)
		vCover("rule schedule: zoned trigger")
	}
	t := vInstant(day, vRange(0, 86399), vRange(0, 999999999), off)
	pts := data.Points{{Type: data.PointTypeTrigger, Time: t}}
	if vBool() {
		// a point of another type at another time does not count as a trigger
		pts = append(pts, data.Point{Type: "value", Time: vInstant(19416, vRange(0, 86399), 0, 0), Value: 1})
	}

	rc := NewRuleClient(nc, cfg).(*RuleClient)
	vGo(func() {
		rc.newRulePoints <- NewPoints{ID: "r", Points: pts}
		close(rc.stop)
	})
	err := rc.Run()
	vAssert(err == nil, "rule client runs and stops cleanly")

	want := c14Want(t, sh, sm, eh, em, wds, nil)
	if want {
		vCover("rule schedule: inside the window")
	} else {
		vCover("rule schedule: outside the window")
	}
	vAssert(rc.config.Conditions[0].Active == want, "a schedule condition is active exactly when the trigger time falls in its window")
	all := want && (!other || otherActive)
	vAssert(rc.config.Active == all, "rule is active exactly when all conditions are")

	nCond, nRule, lastCond, lastRule := 0, 0, -1.0, -1.0
	for _, e := range vEvents(nc) {
		if e.Kind != "pub" {
			continue
		}
		ps, derr := data.PbDecodePoints(e.Data)
		vAssert(derr == nil, "rule publishes decodable points")
		for _, p := range ps {
			if p.Type != data.PointTypeActive {
				continue
			}
			if e.Subject == "p.c0" {
				nCond++
				lastCond = p.Value
			}
			if e.Subject == "p.r" {
				nRule++
				lastRule = p.Value
			}
		}
	}
	b2f := func(b bool) float64 {
		if b {
			return 1
		}
		return 0
	}
	if want != condWas {
		vAssert(nCond >= 1 && lastCond == b2f(want), "a schedule condition's change of state is written to the condition node")
	}
	if all != ruleWas {
		vAssert(nRule == 1 && lastRule == b2f(all), "a change of the rule's state is written to the rule node once")
	} else {
		vAssert(nRule == 0, "no rule state point without a change")
	}
}
