package client

// C15 — export followed by import reproduces the tree.
//
// Real code: ExportNodes, exportNodesHelper, ImportNodes, ReplaceIDs,
// checkIDs, SendNode, SendNodePoints/SendEdgePoints, GetNodes, GetRootNode,
// DeleteNode. The YAML codec is the engine's stub (identity honouring
// yaml:"-"), so text fidelity of YAML is outside the claim; the store is the
// miniature node store of this harness package.

import (
	"math"

	"github.com/simpleiot/simpleiot/data"
)

func init() {
	vRegister("HarnessC15ExportImport", HarnessC15ExportImport)
}

// c15Pt: a stored point (key already normalised by the store)
func c15Pt(typ, key string) data.Point {
	// small integral values: the real YAML codec (witness validation) cannot
	// read back numbers it prints without a decimal point such as 5e-324;
	// number formatting of the codec is outside the claim
	p := data.Point{Type: typ, Key: key, Time: vInstant(19886, vRange(0, 1000), 0, 0), Value: c15Val(), Text: vStr(1), Tombstone: vChoose(2)}
	vAssume(p.Text[0] == 'a' || p.Text[0] == 'b') // plain text only: YAML text fidelity is outside the claim
	return p
}

// c15Val: any float64 in [1, 1024) or (-1024, -1] with at most 8 fractional
// mantissa bits (prints as plain decimal text).
func c15Val() float64 {
	v := vF64()
	b := math.Float64bits(v)
	e := (b >> 52) & 0x7ff
	vAssume(e >= 1023 && e <= 1032 && b&0x00000FFFFFFFFFFF == 0)
	return v
}

// c15EdgePt: an edge point whose value may also be exactly 0 (text-only
// edge points such as a role carry value 0)
func c15EdgePt(typ, key string) data.Point {
	p := c15Pt(typ, key)
	if vBool() {
		p.Value = 0
	}
	return p
}

type c15Node struct {
	n        data.NodeEdge
	children []*c15Node
}

// c15Read walks the subtree below (parent,id) as the API shows it.
func c15Read(srv *vNodeSrv, parent, id string) *c15Node {
	ns := srv.query(parent, id, "", false)
	if len(ns) != 1 {
		return nil
	}
	out := &c15Node{n: ns[0]}
	for _, c := range srv.query(id, "all", "", false) {
		out.children = append(out.children, c15Read(srv, id, c.ID))
	}
	return out
}

func c15FindPoint(ps data.Points, typ, key string) (data.Point, bool) {
	for _, p := range ps {
		if p.Type == typ && p.Key == key {
			return p, true
		}
	}
	return data.Point{}, false
}

// c15SamePoints: same identities with equal value, text and tombstone.
// ren maps source ids to imported ids (nil = identical) for node-id points.
func c15SamePoints(src, dst data.Points, ren func(string) string, skipTomb0, isTop bool) bool {
	n := 0
	for _, p := range src {
		if skipTomb0 && p.Type == data.PointTypeTombstone && p.Value == 0 {
			continue
		}
		n++
		g, ok := c15FindPoint(dst, p.Type, p.Key)
		if !ok || g.Value != p.Value || g.Tombstone != p.Tombstone {
			return false
		}
		want := p.Text
		if p.Type == data.PointTypeNodeID && p.Text != "" {
			want = ren(p.Text)
			if want == "" {
				// reference to a node outside the exported tree: any fresh id
				if g.Text == "" {
					return false
				}
				continue
			}
		}
		if isTop && p.Type == data.PointTypeDescription {
			want += " (import)"
		}
		if g.Text != want {
			return false
		}
	}
	m := 0
	for _, p := range dst {
		if skipTomb0 && p.Type == data.PointTypeTombstone && p.Value == 0 {
			continue
		}
		m++
	}
	return n == m
}

func HarnessC15ExportImport() {
	// source instance A
	ncA := vConn()
	tree := []data.NodeEdge{
		{ID: "rootA", Parent: "root", Type: data.NodeTypeDevice, EdgePoints: data.Points{{Type: data.PointTypeTombstone, Key: "0", Time: vInstant(19886, 0, 0, 0)}}},
		{ID: "t", Parent: "rootA", Type: "x",
			Points:     data.Points{c15Pt(data.PointTypeDescription, "0"), c15Pt("v", "0"), c15Pt("v", "k")},
			EdgePoints: data.Points{{Type: data.PointTypeTombstone, Key: "0", Time: vInstant(19886, 0, 0, 0)}, c15Pt("role", "0")}},
		{ID: "c1", Parent: "t", Type: "y",
			Points:     data.Points{c15Pt("v", "0")},
			EdgePoints: data.Points{{Type: data.PointTypeTombstone, Key: "0", Time: vInstant(19886, 0, 0, 0)}, c15EdgePt("role", "0")}},
	}
	// a cross reference held in a node-id point of t: to c1, to a node outside the tree, or none
	ref := []string{"c1", "elsewhere", ""}[vChoose(3)]
	tree[1].Points = append(tree[1].Points, data.Point{Type: data.PointTypeNodeID, Key: "0", Time: vInstant(19886, 0, 0, 0), Text: ref})
	if vBool() {
		// a deleted child must not be exported
		tree = append(tree, data.NodeEdge{ID: "gone", Parent: "t", Type: "y", EdgePoints: data.Points{{Type: data.PointTypeTombstone, Key: "0", Time: vInstant(19886, 0, 0, 0), Value: 1}}})
		vCover("c15: deleted child present")
	}
	if vBool() {
		tree = append(tree, data.NodeEdge{ID: "c2", Parent: "c1", Type: "z", Points: data.Points{c15Pt("v", "1")},
			EdgePoints: data.Points{{Type: data.PointTypeTombstone, Key: "0", Time: vInstant(19886, 0, 0, 0)}}})
		vCover("c15: grandchild present")
	}
	if vParam("sibs", 0) == 1 && vBool() {
		// a second child with its own points and a node-id reference to its sibling or to the top node
		sref := []string{"c1", "t"}[vChoose(2)]
		tree = append(tree, data.NodeEdge{ID: "s1", Parent: "t", Type: "y",
			Points:     data.Points{c15Pt("v", "0"), {Type: data.PointTypeNodeID, Key: "0", Time: vInstant(19886, 0, 0, 0), Text: sref}},
			EdgePoints: data.Points{{Type: data.PointTypeTombstone, Key: "0", Time: vInstant(19886, 0, 0, 0)}, c15Pt("role", "0")}})
		vCover("c15: sibling present")
	}
	if vBool() {
		// the export target was moved here from group gA: its old placement is
		// tombstoned and comes first in the store's reply
		moved := []data.NodeEdge{
			{ID: "gA", Parent: "rootA", Type: data.NodeTypeGroup, EdgePoints: data.Points{{Type: data.PointTypeTombstone, Key: "0", Time: vInstant(19886, 0, 0, 0)}}},
			{ID: "t", Parent: "gA", Type: "x", EdgePoints: data.Points{{Type: data.PointTypeTombstone, Key: "0", Time: vInstant(19886, 0, 0, 0), Value: 1}}},
		}
		tree = append(append([]data.NodeEdge{tree[0]}, moved...), tree[1:]...)
		vCover("c15: moved export target")
	}
	srvA := vServeNodes(ncA, "rootA", tree)
	src := c15Read(srvA, "rootA", "t")
	vAssume(src != nil)

	exp, err := ExportNodes(ncA, "t")
	vAssert(err == nil, "export succeeds")

	// target instance B
	ncB := vConn()
	srvB := vServeNodes(ncB, "rootB", []data.NodeEdge{
		{ID: "rootB", Parent: "root", Type: data.NodeTypeDevice, EdgePoints: data.Points{{Type: data.PointTypeTombstone, Key: "0", Time: vInstant(19886, 0, 0, 0)}}},
		{ID: "g", Parent: "rootB", Type: data.NodeTypeGroup, EdgePoints: data.Points{{Type: data.PointTypeTombstone, Key: "0", Time: vInstant(19886, 0, 0, 0)}}},
	})
	parent := []string{"rootB", "g"}[vChoose(2)]
	preserve := vBool()
	err = ImportNodes(ncB, parent, exp, "imp", preserve)
	vAssert(err == nil, "import under an existing parent succeeds")

	// find the imported top node below parent
	var tops []*c15Node
	for _, c := range srvB.query(parent, "all", "", false) {
		if c.Type == "x" {
			tops = append(tops, c15Read(srvB, parent, c.ID))
		}
	}
	vAssert(len(tops) == 1 && tops[0] != nil, "exactly one imported top node appears under the import parent")
	dst := tops[0]

	// id correspondence discovered while walking both trees
	type pair struct{ from, to string }
	var idmap []pair
	ren := func(id string) string {
		for _, p := range idmap {
			if p.from == id {
				return p.to
			}
		}
		return ""
	}
	var walk func(a, b *c15Node, top bool)
	var pending []func()
	walk = func(a, b *c15Node, top bool) {
		vAssert(a.n.Type == b.n.Type, "node types are reproduced")
		if preserve {
			vAssert(a.n.ID == b.n.ID, "with identifier preservation the ids are identical")
		} else {
			for _, p := range idmap {
				vAssert(p.to != b.n.ID && p.from != a.n.ID, "every id is replaced consistently (no two nodes share an id)")
			}
			vAssert(b.n.ID != a.n.ID, "without identifier preservation ids are replaced")
		}
		idmap = append(idmap, pair{a.n.ID, b.n.ID})
		vAssert(len(a.children) == len(b.children), "the imported subtree has the same shape (deleted nodes are not exported)")
		aa, bb, tt := a, b, top
		pending = append(pending, func() {
			vAssert(c15SamePoints(aa.n.Points, bb.n.Points, ren, false, tt), "points (type, key, value, text, tombstone) are reproduced; node-id references follow the id replacement; only the top description gains the import marker")
			vAssert(c15SamePoints(aa.n.EdgePoints, bb.n.EdgePoints, ren, true, false), "edge points are reproduced")
		})
		for i := range a.children {
			if i < len(b.children) {
				walk(a.children[i], b.children[i], false)
			}
		}
	}
	walk(src, dst, true)
	if preserve {
		idmap = append(idmap, pair{"elsewhere", "elsewhere"})
	}
	for _, f := range pending {
		f()
	}
	if !preserve && ref == "elsewhere" {
		// a reference to a node outside the exported tree gets some fresh id (documented behaviour)
		vCover("c15: outside reference")
	}
	vCover("c15: done")
}
