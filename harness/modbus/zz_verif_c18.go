package modbus

// C18 — the Modbus server answers every request safely and per specification.
//
// Real code under test: (*PDU).ProcessRequest, handleError, all (*Regs)
// methods it reaches. Reference model: refRegs below, written from the Modbus
// Application Protocol specification v1.1b3 (sections 6.1-6.6, 6.11, 6.12).

func init() {
	vRegister("HarnessC18ReadBits", HarnessC18ReadBits)
	vRegister("HarnessC18ReadRegs", HarnessC18ReadRegs)
	vRegister("HarnessC18WriteSingle", HarnessC18WriteSingle)
	vRegister("HarnessC18WriteMulti", HarnessC18WriteMulti)
	vRegister("HarnessC18Other", HarnessC18Other)
}

type refReg struct {
	addr, val uint16
	validate  func(uint16) bool
}

// c18Regs builds an arbitrary register file of 0..maxN registers (arbitrary
// distinct addresses, arbitrary values, optional arbitrary validators) and
// the reference copy of it.
func c18Regs(maxN int, validators bool) (*Regs, []refReg) {
	regs := &Regs{}
	var ref []refReg
	n := vChoose(maxN + 1)
	for i := 0; i < n; i++ {
		r := refReg{addr: vU16(), val: vU16()}
		for _, o := range ref {
			vAssume(o.addr != r.addr)
		}
		if validators && vBool() {
			r.validate = vFuncU16Bool()
		}
		ref = append(ref, r)
		regs.regs = append(regs.regs, Reg{Address: r.addr, Value: r.val, Validate: r.validate})
	}
	return regs, ref
}

func refFind(ref []refReg, addr int) int {
	for i := range ref {
		if int(ref[i].addr) == addr {
			return i
		}
	}
	return -1
}

func refSame(ref []refReg, regs *Regs) bool {
	if len(ref) != len(regs.regs) {
		return false
	}
	for i := range ref {
		if ref[i].addr != regs.regs[i].Address || ref[i].val != regs.regs[i].Value {
			return false
		}
	}
	return true
}

// refWriteReg applies a register write to the model: 0 = done, else the
// exception code.
func refWriteReg(ref []refReg, addr int, v uint16) ExceptionCode {
	i := refFind(ref, addr)
	if i < 0 {
		return ExcIllegalAddress
	}
	if ref[i].validate != nil && !ref[i].validate(v) {
		return ExcIllegalValue
	}
	ref[i].val = v
	return 0
}

func refWriteCoil(ref []refReg, num int, on bool) ExceptionCode {
	i := refFind(ref, num/16)
	if i < 0 {
		return ExcIllegalAddress
	}
	v := ref[i].val
	if on {
		v |= 1 << uint(num%16)
	} else {
		v &^= 1 << uint(num%16)
	}
	return refWriteReg(ref, num/16, v)
}

func isException(changed bool, resp PDU, err error, fc FunctionCode, code ExceptionCode) bool {
	return err == nil && !changed && resp.FunctionCode == fc|0x80 &&
		len(resp.Data) == 1 && resp.Data[0] == byte(code)
}

func be16(b []byte) uint16 { return uint16(b[0])<<8 | uint16(b[1]) }

// HarnessC18ReadBits: function codes 1 and 2.
func HarnessC18ReadBits() {
	regs, ref := c18Regs(vParam("regs", 2), false)
	fc := FuncCodeReadCoils
	if vBool() {
		fc = FuncCodeReadDiscreteInputs
	}
	n := vChoose(vParam("extra", 1)+5) // 0..4+extra bytes of data
	data := vBytes(n)
	p := &PDU{FunctionCode: fc, Data: data}

	changed, resp, err := p.ProcessRequest(regs)

	vAssert(refSame(ref, regs), "a read leaves every register unchanged")
	if n < 4 {
		vCover("readbits: short pdu")
		vAssert(err != nil || (resp.FunctionCode == fc|0x80 && len(resp.Data) == 1), "short PDU: error or exception")
		vAssert(!changed, "short PDU: no change flag")
		return
	}
	addr, q := int(be16(data[0:2])), int(be16(data[2:4]))
	if q < 1 || q > 2000 {
		vCover("readbits: quantity out of limits")
		vAssert(isException(changed, resp, err, fc, ExcIllegalValue), "read bits: quantity outside 1..2000 must give exception 3")
		return
	}
	// every addressed coil must be mapped (n registers cover at most 16*n coils)
	for i := 0; i < q; i++ {
		if refFind(ref, (addr+i)/16) < 0 {
			vCover("readbits: unmapped")
			vAssert(isException(changed, resp, err, fc, ExcIllegalAddress), "read bits: unmapped coil must give exception 2")
			return
		}
	}
	vCover("readbits: normal")
	nb := (q + 7) / 8
	vAssert(err == nil && !changed, "read bits: normal response has no error and no change flag")
	vAssert(resp.FunctionCode == fc, "read bits: function code echoed")
	vAssert(len(resp.Data) == 1+nb, "read bits: response length is 1 + ceil(q/8)")
	vAssert(int(resp.Data[0]) == nb, "read bits: byte count is ceil(q/8)")
	for i := 0; i < q; i++ {
		want := ref[refFind(ref, (addr+i)/16)].val&(1<<uint((addr+i)%16)) != 0
		got := resp.Data[1+i/8]&(1<<uint(i%8)) != 0
		vAssert(got == want, "read bits: bit i equals coil addr+i")
	}
	for i := q; i < nb*8; i++ {
		vAssert(resp.Data[1+i/8]&(1<<uint(i%8)) == 0, "read bits: padding bits are zero")
	}
}

// HarnessC18ReadRegs: function codes 3 and 4.
func HarnessC18ReadRegs() {
	regs, ref := c18Regs(vParam("regs", 2), false)
	fc := FuncCodeReadHoldingRegisters
	if vBool() {
		fc = FuncCodeReadInputRegisters
	}
	n := vChoose(vParam("extra", 1) + 5)
	data := vBytes(n)
	p := &PDU{FunctionCode: fc, Data: data}

	changed, resp, err := p.ProcessRequest(regs)

	vAssert(refSame(ref, regs), "a read leaves every register unchanged")
	if n < 4 {
		vCover("readregs: short pdu")
		vAssert(err != nil || (resp.FunctionCode == fc|0x80 && len(resp.Data) == 1), "short PDU: error or exception")
		vAssert(!changed, "short PDU: no change flag")
		return
	}
	addr, q := int(be16(data[0:2])), int(be16(data[2:4]))
	if q < 1 || q > 125 {
		vCover("readregs: quantity out of limits")
		vAssert(isException(changed, resp, err, fc, ExcIllegalValue), "read registers: quantity outside 1..125 must give exception 3")
		return
	}
	vAssume(addr+q <= 65536) // address wrap-around is outside the claim
	for i := 0; i < q; i++ {
		if refFind(ref, addr+i) < 0 {
			vCover("readregs: unmapped")
			vAssert(isException(changed, resp, err, fc, ExcIllegalAddress), "read registers: unmapped register must give exception 2")
			return
		}
	}
	vCover("readregs: normal")
	vAssert(err == nil && !changed, "read registers: normal response has no error and no change flag")
	vAssert(resp.FunctionCode == fc, "read registers: function code echoed")
	vAssert(len(resp.Data) == 1+2*q, "read registers: response length is 1 + 2q")
	vAssert(int(resp.Data[0]) == 2*q, "read registers: byte count is 2q")
	for i := 0; i < q; i++ {
		vAssert(be16(resp.Data[1+2*i:]) == ref[refFind(ref, addr+i)].val, "read registers: value i equals register addr+i")
	}
}

// HarnessC18WriteSingle: function codes 5 and 6.
func HarnessC18WriteSingle() {
	regs, ref := c18Regs(vParam("regs", 2), true)
	coil := vBool()
	fc := FuncCodeWriteSingleRegister
	if coil {
		fc = FuncCodeWriteSingleCoil
	}
	n := vChoose(vParam("extra", 1) + 5)
	data := vBytes(n)
	req := append([]byte{}, data...)
	p := &PDU{FunctionCode: fc, Data: data}
	before := append([]refReg{}, ref...)

	changed, resp, err := p.ProcessRequest(regs)

	if n < 4 {
		vCover("writesingle: short pdu")
		vAssert(err != nil || (resp.FunctionCode == fc|0x80 && len(resp.Data) == 1), "short PDU: error or exception")
		vAssert(!changed && refSame(before, regs), "short PDU: nothing changes")
		return
	}
	addr, v := int(be16(req[0:2])), be16(req[2:4])
	var exc ExceptionCode
	if coil {
		if v != 0x0000 && v != 0xFF00 {
			exc = ExcIllegalValue
		} else {
			exc = refWriteCoil(ref, addr, v == 0xFF00)
		}
	} else {
		exc = refWriteReg(ref, addr, v)
	}
	if exc != 0 {
		vCover("writesingle: exception")
		vAssert(isException(changed, resp, err, fc, exc), "single write: exception code per specification")
		vAssert(refSame(before, regs), "single write answered by an exception leaves every register unchanged")
		return
	}
	vCover("writesingle: normal")
	vAssert(err == nil && changed, "single write: success sets the change flag")
	vAssert(resp.FunctionCode == fc && len(resp.Data) >= 4 &&
		resp.Data[0] == req[0] && resp.Data[1] == req[1] && resp.Data[2] == req[2] && resp.Data[3] == req[3],
		"single write: response echoes the request")
	vAssert(refSame(ref, regs), "single write: exactly the addressed register/coil changes")
}

// HarnessC18WriteMulti: function codes 15 and 16.
func HarnessC18WriteMulti() {
	regs, ref := c18Regs(vParam("regs", 2), true)
	coil := vBool()
	fc := FuncCodeWriteMultipleRegisters
	if coil {
		fc = FuncCodeWriteMultipleCoils
	}
	n := vChoose(vParam("mlen", 9) + 1) // 0..mlen data bytes
	if vParam("mbig", 0) == 1 {
		// request sizes around the protocol limits: 123 registers = 251 data
		// bytes, 124 = 253, 125 = 255, 126 = 257; 1968 coils = 251, 1969.. = 252
		n = []int{251, 252, 253, 255, 257}[vChoose(5)]
	}
	data := vBytes(n)
	req := append([]byte{}, data...)
	p := &PDU{FunctionCode: fc, Data: data}
	before := append([]refReg{}, ref...)

	changed, resp, err := p.ProcessRequest(regs)

	min := 6
	if !coil {
		min = 7
	}
	if n < min {
		vCover("writemulti: short pdu")
		vAssert(err != nil || (resp.FunctionCode == fc|0x80 && len(resp.Data) == 1), "short PDU: error or exception")
		vAssert(!changed && refSame(before, regs), "short PDU: nothing changes")
		return
	}
	addr, q := int(be16(req[0:2])), int(be16(req[2:4]))
	var want int
	var maxQ int
	if coil {
		want, maxQ = 5+(q+7)/8, 1968
	} else {
		want, maxQ = 5+2*q, 123
	}
	if q < 1 || q > maxQ || n != want {
		vCover("writemulti: bad quantity or length")
		vAssert(isException(changed, resp, err, fc, ExcIllegalValue), "multiple write: quantity out of limits or length mismatch must give exception 3")
		vAssert(refSame(before, regs), "multiple write refused for its quantity leaves every register unchanged")
		return
	}
	vAssume(coil || addr+q <= 65536)
	for i := 0; i < q; i++ {
		var exc ExceptionCode
		if coil {
			exc = refWriteCoil(ref, addr+i, req[5+i/8]>>(uint(i)%8)&1 == 1)
		} else {
			exc = refWriteReg(ref, addr+i, be16(req[5+2*i:]))
		}
		if exc != 0 {
			vCover("writemulti: exception")
			vAssert(isException(changed, resp, err, fc, exc), "multiple write: exception code per specification")
			return
		}
	}
	vCover("writemulti: normal")
	vAssert(err == nil && changed, "multiple write: success sets the change flag")
	vAssert(resp.FunctionCode == fc && len(resp.Data) == 4 &&
		resp.Data[0] == req[0] && resp.Data[1] == req[1] && resp.Data[2] == req[2] && resp.Data[3] == req[3],
		"multiple write: response is address and quantity")
	vAssert(refSame(ref, regs), "multiple write: exactly the addressed registers/coils change")
}

// HarnessC18Other: every other function code, any data.
func HarnessC18Other() {
	regs, ref := c18Regs(vParam("regs", 2), false)
	fc := FunctionCode(vU8())
	vAssume(fc != 1 && fc != 2 && fc != 3 && fc != 4 && fc != 5 && fc != 6 && fc != 15 && fc != 16)
	n := vChoose(vParam("olen", 12) + 1)
	data := vBytes(n)
	p := &PDU{FunctionCode: fc, Data: data}

	changed, resp, err := p.ProcessRequest(regs)

	vAssert(refSame(ref, regs) && !changed, "unsupported function: nothing changes")
	vAssert(err != nil || isException(changed, resp, err, fc, ExcIllegalFunction), "unsupported function: exception 1 (or an error for a truncated PDU)")
	if fc != 22 && fc != 23 && fc != 24 {
		vCover("other: unknown function")
		vAssert(isException(changed, resp, err, fc, ExcIllegalFunction), "unknown function code must give exception 1")
	}
}
