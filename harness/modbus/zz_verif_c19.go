package modbus

// C19 — Modbus client, server and transports agree end to end.
//
// Real code: every (*Client) method, (*Server).Listen (one request through the
// real loop), RTU/TCP Encode/Decode, RtuCrc/CheckRtuCrc, ProcessRequest,
// RespReadBits/RespReadRegs, the request constructors and data.go.
// The wire is a scripted in-memory duplex port defined here.

import (
	"net"
	"time"
)

func init() {
	vRegister("HarnessC19ReadRegs", HarnessC19ReadRegs)
	vRegister("HarnessC19ReadBits", HarnessC19ReadBits)
	vRegister("HarnessC19Write", HarnessC19Write)
	vRegister("HarnessC19RtuDecode", HarnessC19RtuDecode)
	vRegister("HarnessC19TcpDecode", HarnessC19TcpDecode)
	vRegister("HarnessC19Conv", HarnessC19Conv)
}

// c19Wire connects one client transport to one server: a client Write runs
// the real Server.Listen loop for exactly one request and keeps what the
// server wrote; the client's Read returns it.
type c19Wire struct {
	srv      *Server
	toServer []byte
	toClient []byte
	srvReads int
	changes  int
	errs     int
}

type c19ClientEnd struct{ w *c19Wire }
type c19ServerEnd struct{ w *c19Wire }

func (e c19ClientEnd) Write(p []byte) (int, error) {
	e.w.toServer = append([]byte{}, p...)
	e.w.toClient = nil
	e.w.srvReads = 0
	e.w.srv.chDone = make(chan bool)
	e.w.srv.Listen(func(error) { e.w.errs++ }, func() { e.w.changes++ }, func() {})
	return len(p), nil
}
func (e c19ClientEnd) Read(p []byte) (int, error) { return copy(p, e.w.toClient), nil }
func (e c19ClientEnd) Close() error              { return nil }

func (e c19ServerEnd) Read(p []byte) (int, error) {
	e.w.srvReads++
	if e.w.srvReads == 1 {
		return copy(p, e.w.toServer), nil
	}
	close(e.w.srv.chDone) // ends the listen loop at its next select
	return 0, nil
}
func (e c19ServerEnd) Write(p []byte) (int, error) {
	e.w.toClient = append([]byte{}, p...)
	return len(p), nil
}
func (e c19ServerEnd) Close() error { return nil }

// net.Conn shims for the TCP transport
type c19Conn struct {
	rw interface {
		Read([]byte) (int, error)
		Write([]byte) (int, error)
	}
}

func (c c19Conn) Read(p []byte) (int, error)       { return c.rw.Read(p) }
func (c c19Conn) Write(p []byte) (int, error)      { return c.rw.Write(p) }
func (c c19Conn) Close() error                     { return nil }
func (c c19Conn) LocalAddr() net.Addr              { return nil }
func (c c19Conn) RemoteAddr() net.Addr             { return nil }
func (c c19Conn) SetDeadline(time.Time) error      { return nil }
func (c c19Conn) SetReadDeadline(time.Time) error  { return nil }
func (c c19Conn) SetWriteDeadline(time.Time) error { return nil }

// c19Setup builds client and server over RTU or TCP around a dense run of
// registers [base, base+n) with arbitrary values.
func c19Setup(n int) (*Client, *c19Wire, []refReg, byte) {
	w := &c19Wire{}
	regs := &Regs{}
	var ref []refReg
	base := vU16()
	vAssume(int(base)+n <= 65536)
	for i := 0; i < n; i++ {
		r := refReg{addr: base + uint16(i), val: vU16()}
		ref = append(ref, r)
		regs.regs = append(regs.regs, Reg{Address: r.addr, Value: r.val})
	}
	id := vU8()
	var ct, st Transport
	if vBool() {
		vCover("transport: tcp")
		c := NewTCP(c19Conn{c19ClientEnd{w}}, time.Second, TransportClient)
		c.txID = vU16()
		ct = c
		st = NewTCP(c19Conn{c19ServerEnd{w}}, time.Second, TransportServer)
	} else {
		vCover("transport: rtu")
		ct = NewRTU(c19ClientEnd{w})
		st = NewRTU(c19ServerEnd{w})
	}
	w.srv = NewServer(id, st, regs, 0)
	return NewClient(ct, 0), w, ref, id
}

func HarnessC19ReadRegs() {
	n := vParam("regs", 2)
	cl, w, ref, id := c19Setup(n)
	addr, count := vU16(), vU16()
	vAssume(count >= 1 && int(count) <= n+1)
	vAssume(int(addr)+int(count) <= 65536)
	useID := vU8()
	var got []uint16
	var err error
	if vBool() {
		got, err = cl.ReadHoldingRegs(useID, addr, count)
	} else {
		got, err = cl.ReadInputRegs(useID, addr, count)
	}
	mapped := true
	for i := 0; i < int(count); i++ {
		if refFind(ref, int(addr)+i) < 0 {
			mapped = false
		}
	}
	if useID != id || !mapped {
		vCover("readregs: refused")
		vAssert(err != nil, "register read of an unmapped address or foreign unit id must fail")
		return
	}
	vCover("readregs: ok")
	vAssert(err == nil, "register read of mapped registers succeeds")
	vAssert(len(got) == int(count), "register read returns exactly count values")
	for i := 0; i < int(count); i++ {
		vAssert(got[i] == ref[refFind(ref, int(addr)+i)].val, "register read value i equals server register addr+i")
	}
	vAssert(refSame(ref, w.srv.regs) && w.changes == 0, "register read changes nothing on the server")
}

func HarnessC19ReadBits() {
	n := vParam("regs", 1)
	cl, w, ref, id := c19Setup(n)
	addr, count := vU16(), vU16()
	vAssume(count >= 1 && int(count) <= vParam("maxbits", 20))
	useID := vU8()
	var got []bool
	var err error
	if vBool() {
		got, err = cl.ReadCoils(useID, addr, count)
	} else {
		got, err = cl.ReadDiscreteInputs(useID, addr, count)
	}
	mapped := true
	for i := 0; i < int(count); i++ {
		if refFind(ref, (int(addr)+i)/16) < 0 {
			mapped = false
		}
	}
	if useID != id || !mapped {
		vCover("readbits: refused")
		vAssert(err != nil, "bit read of an unmapped address or foreign unit id must fail")
		return
	}
	vCover("readbits: ok")
	vAssert(err == nil, "bit read of mapped coils succeeds")
	vAssert(len(got) == int(count), "bit read returns exactly count values")
	for i := 0; i < int(count) && i < len(got); i++ {
		a := int(addr) + i
		want := ref[refFind(ref, a/16)].val&(1<<uint(a%16)) != 0
		vAssert(got[i] == want, "bit read value i equals server coil addr+i")
	}
	vAssert(refSame(ref, w.srv.regs) && w.changes == 0, "bit read changes nothing on the server")
}

func HarnessC19Write() {
	n := vParam("regs", 2)
	cl, w, ref, id := c19Setup(n)
	addr := vU16()
	useID := vU8()
	before := append([]refReg{}, ref...)
	var err error
	var exc ExceptionCode
	if vBool() {
		vCover("write: coil")
		on := vBool()
		err = cl.WriteSingleCoil(useID, addr, on)
		exc = refWriteCoil(ref, int(addr), on)
	} else {
		vCover("write: reg")
		v := vU16()
		err = cl.WriteSingleReg(useID, addr, v)
		exc = refWriteReg(ref, int(addr), v)
	}
	if useID != id || exc != 0 {
		vCover("write: refused")
		vAssert(err != nil, "write to an unmapped address or foreign unit id must fail")
		vAssert(refSame(before, w.srv.regs) && w.changes == 0, "refused write changes nothing on the server")
		return
	}
	vCover("write: ok")
	vAssert(err == nil, "write to a mapped register succeeds")
	vAssert(refSame(ref, w.srv.regs), "after a write the server holds exactly the written value")
	vAssert(w.changes == 1, "server reports the change once")
}

// refCrc is an independent bitwise CRC-16/MODBUS (poly 0xA001 reflected,
// init 0xFFFF), returned in transmission order (low byte first).
func refCrc(b []byte) (lo, hi byte) {
	c := uint16(0xFFFF)
	for _, x := range b {
		c ^= uint16(x)
		for k := 0; k < 8; k++ {
			if c&1 != 0 {
				c = (c >> 1) ^ 0xA001
			} else {
				c = c >> 1
			}
		}
	}
	return byte(c), byte(c >> 8)
}

// HarnessC19RtuDecode: RTU.Decode accepts exactly well-formed frames.
func HarnessC19RtuDecode() {
	// the reference CRC is the textbook CRC-16/MODBUS: check value of "123456789" is 0x4B37
	clo, chi := refCrc([]byte("123456789"))
	vAssert(clo == 0x37 && chi == 0x4B, "reference CRC-16/MODBUS check value")
	n := vChoose(vParam("rtulen", 7) + 1)
	pkt := vBytes(n)
	orig := append([]byte{}, pkt...)
	r := NewRTU(nil)
	id, pdu, err := r.Decode(pkt)
	if n < 4 {
		vCover("rtu: short")
		vAssert(err != nil, "RTU frame shorter than 4 bytes must be rejected")
		return
	}
	lo, hi := refCrc(orig[:n-2])
	if orig[n-2] != lo || orig[n-1] != hi {
		vCover("rtu: bad crc")
		vAssert(err != nil, "RTU frame with a wrong CRC must be rejected")
		return
	}
	vCover("rtu: good")
	vAssert(err == nil, "RTU frame with correct CRC and length is accepted")
	vAssert(id == orig[0] && pdu.FunctionCode == FunctionCode(orig[1]) && len(pdu.Data) == n-4, "RTU decode returns id, function and data")
	for i := 0; i < n-4; i++ {
		vAssert(pdu.Data[i] == orig[2+i], "RTU decode returns the data bytes")
	}
	// and encoding the decoded PDU gives the frame back
	enc, eerr := r.Encode(id, pdu)
	vAssert(eerr == nil && len(enc) == n, "RTU encode length")
	for i := 0; i < n; i++ {
		vAssert(enc[i] == orig[i], "RTU encode(decode(frame)) == frame")
	}
}

// HarnessC19TcpDecode: TCP.Decode rejects short frames and, on the client
// side, frames whose transaction id is not the expected one.
func HarnessC19TcpDecode() {
	n := vChoose(vParam("tcplen", 11) + 1)
	pkt := vBytes(n)
	orig := append([]byte{}, pkt...)
	client := vBool()
	role := TransportServer
	if client {
		role = TransportClient
	}
	t := NewTCP(nil, time.Second, role)
	t.txID = vU16()
	want := t.txID
	id, pdu, err := t.Decode(pkt)
	if n < 9 {
		vCover("tcp: short")
		vAssert(err != nil, "TCP frame shorter than 9 bytes must be rejected")
		return
	}
	tx := uint16(orig[0])<<8 | uint16(orig[1])
	if client && tx != want {
		vCover("tcp: wrong transaction id")
		vAssert(err != nil, "TCP response with a mismatched transaction id must be rejected")
		return
	}
	vCover("tcp: good")
	vAssert(err == nil, "well-formed TCP frame is accepted")
	vAssert(id == orig[6] && pdu.FunctionCode == FunctionCode(orig[7]) && len(pdu.Data) == n-8, "TCP decode returns unit id, function and data")
	for i := 0; i < n-8; i++ {
		vAssert(pdu.Data[i] == orig[8+i], "TCP decode returns the data bytes")
	}
	if !client {
		enc, _ := t.Encode(id, pdu)
		vAssert(len(enc) == n && enc[0] == orig[0] && enc[1] == orig[1], "TCP server echoes the transaction id")
		vAssert(enc[4] == byte((n-6)>>8) && enc[5] == byte(n-6) && enc[6] == id && enc[7] == orig[7], "TCP encode header")
	}
}

// HarnessC19Conv: data.go conversions are exact inverses (2 elements).
func HarnessC19Conv() {
	r := []uint16{vU16(), vU16(), vU16(), vU16()}
	eq := func(a, b []uint16) bool {
		if len(a) != len(b) {
			return false
		}
		for i := range a {
			if a[i] != b[i] {
				return false
			}
		}
		return true
	}
	vAssert(eq(Uint32ToRegs(RegsToUint32(r)), r), "Uint32ToRegs(RegsToUint32(r)) == r")
	vAssert(eq(Uint32ToRegsSwapRegs(RegsToUint32SwapWords(r)), r), "swap-word uint32 to(from(r)) == r")
	vAssert(eq(Int32ToRegs(RegsToInt32(r)), r), "Int32ToRegs(RegsToInt32(r)) == r")
	vAssert(eq(Int32ToRegsSwapWords(RegsToInt32SwapWords(r)), r), "swap-word int32 to(from(r)) == r")
	vAssert(eq(Float32ToRegs(RegsToFloat32(r)), r), "Float32ToRegs(RegsToFloat32(r)) == r")
	vAssert(eq(Float32ToRegsSwapWords(RegsToFloat32SwapWords(r)), r), "swap-word float32 to(from(r)) == r")
	vAssert(eq(Uint16Array(PutUint16Array(r...)), r), "Uint16Array(PutUint16Array(r)) == r")

	u := []uint32{vU32(), vU32()}
	gu := RegsToUint32(Uint32ToRegs(u))
	vAssert(len(gu) == 2 && gu[0] == u[0] && gu[1] == u[1], "RegsToUint32(Uint32ToRegs(u)) == u")
	gus := RegsToUint32SwapWords(Uint32ToRegsSwapRegs(u))
	vAssert(len(gus) == 2 && gus[0] == u[0] && gus[1] == u[1], "swap-word uint32 from(to(u)) == u")
	// word order: big-endian register pair, high word first (resp. swapped)
	ur := Uint32ToRegs(u)
	vAssert(ur[0] == uint16(u[0]>>16) && ur[1] == uint16(u[0]), "Uint32ToRegs puts the high word first")
	us := Uint32ToRegsSwapRegs(u)
	vAssert(us[0] == uint16(u[0]) && us[1] == uint16(u[0]>>16), "Uint32ToRegsSwapRegs puts the low word first")

	s := []int32{vI32(), vI32()}
	gs := RegsToInt32(Int32ToRegs(s))
	vAssert(len(gs) == 2 && gs[0] == s[0] && gs[1] == s[1], "RegsToInt32(Int32ToRegs(s)) == s")
	gss := RegsToInt32SwapWords(Int32ToRegsSwapWords(s))
	vAssert(len(gss) == 2 && gss[0] == s[0] && gss[1] == s[1], "swap-word int32 from(to(s)) == s")
	i16 := RegsToInt16(r)
	vAssert(len(i16) == 4 && uint16(i16[0]) == r[0] && uint16(i16[3]) == r[3], "RegsToInt16 keeps the bits")
}
