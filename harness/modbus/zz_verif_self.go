package modbus

// Translator self-test: the repository's own test vectors (rtu_test.go,
// data_test.go, pdu_test.go, tcp_test.go) are pushed through the real
// functions under the engine and natively; both must agree with the values
// the repository's tests expect. A wrong SSA translation shows up as an
// assertion the engine cannot close but the native run passes, which the
// check reports as INCONCLUSIVE (never as a violation).

import "time"

func init() {
	vRegister("HarnessSelfModbus", HarnessSelfModbus)
}

func selfEq(a, b []byte) bool {
	if len(a) != len(b) {
		return false
	}
	for i := range a {
		if a[i] != b[i] {
			return false
		}
	}
	return true
}

func HarnessSelfModbus() {
	levelPrompt := []byte{1, 3, 0, 10, 0, 1, 164, 8}
	levelResp := []byte{1, 3, 2, 0, 98, 57, 173}
	coilPrompt := []byte{1, 1, 0, 128, 0, 1, 252, 34}
	coilResp := []byte{1, 1, 1, 1, 144, 72}

	vAssert(CheckRtuCrc(levelPrompt) == nil && CheckRtuCrc(coilPrompt) == nil, "self: CRC of the SC2000 prompts")
	vAssert(CheckRtuCrc([]byte{1, 3, 0, 10, 0, 1, 164, 9}) != nil, "self: a wrong CRC is refused")
	rtu := NewRTU(nil)
	prompt := ReadHoldingRegs(10, 1)
	enc, err := rtu.Encode(1, prompt)
	vAssert(err == nil && selfEq(enc, levelPrompt), "self: RTU encoding of the level prompt")
	regs := Regs{}
	regs.AddReg(10, 1)
	_ = regs.WriteReg(10, 98)
	_, resp, err := prompt.ProcessRequest(&regs)
	vAssert(err == nil, "self: level request processed")
	enc, err = rtu.Encode(1, resp)
	vAssert(err == nil && selfEq(enc, levelResp), "self: RTU encoding of the level response")
	id, pdu, err := rtu.Decode(levelResp)
	vAssert(err == nil && id == 1 && pdu.FunctionCode == FuncCodeReadHoldingRegisters && selfEq(pdu.Data, []byte{2, 0, 98}), "self: RTU decoding of the level response")

	cp := ReadCoils(128, 1)
	enc, err = rtu.Encode(1, cp)
	vAssert(err == nil && selfEq(enc, coilPrompt), "self: RTU encoding of the coil prompt")
	cregs := Regs{}
	cregs.AddCoil(128)
	_ = cregs.WriteCoil(128, true)
	_, cresp, err := cp.ProcessRequest(&cregs)
	vAssert(err == nil, "self: coil request processed")
	enc, err = rtu.Encode(1, cresp)
	vAssert(err == nil && selfEq(enc, coilResp), "self: RTU encoding of the coil response")
	bits, err := cresp.RespReadBits()
	vAssert(err == nil && len(bits) >= 1 && bits[0], "self: coil 128 reads high")

	// write single coil, also to an address that does not exist
	wreq, ereq := WriteSingleCoil(128, false), WriteSingleCoil(64, false)
	_, wresp, err := wreq.ProcessRequest(&cregs)
	vAssert(err == nil && wresp.FunctionCode == FuncCodeWriteSingleCoil && selfEq(wresp.Data, []byte{0, 128, 0, 0}), "self: write single coil echo")
	_, eresp, _ := ereq.ProcessRequest(&cregs)
	vAssert(eresp.FunctionCode == 0x80|FuncCodeWriteSingleCoil && len(eresp.Data) == 1 && eresp.Data[0] == byte(ExcIllegalAddress), "self: illegal address exception")

	// data_test.go
	u := RegsToUint32(Uint32ToRegs([]uint32{412345623}))
	vAssert(len(u) == 1 && u[0] == 412345623, "self: uint32 conversion")
	vAssert(selfU16(Uint32ToRegs([]uint32{412345623}), []uint16{0x1893, 0xe517}), "self: uint32 register image")
	i := RegsToInt32(Int32ToRegs([]int32{-412345623}))
	vAssert(len(i) == 1 && i[0] == -412345623, "self: int32 conversion")
	f := RegsToFloat32(Float32ToRegs([]float32{2124.23e18}))
	vAssert(len(f) == 1 && f[0] == float32(2124.23e18), "self: float32 conversion")
	fs := RegsToFloat32SwapWords([]uint16{0xd70a, 0x3c23})
	vAssert(len(fs) == 1 && fs[0] == float32(0.01), "self: swapped-word float32")

	// tcp_test.go
	tp := NewTCP(nil, 500*time.Millisecond, TransportClient)
	td, err := tp.Encode(1, PDU{FunctionCode: FuncCodeWriteMultipleCoils, Data: []byte{1, 2, 3}})
	vAssert(err == nil && selfEq(td[2:], []byte{0, 0, 0, 5, 1, 15, 1, 2, 3}), "self: TCP frame layout")
	_, p2, err := tp.Decode(td)
	vAssert(err == nil && p2.FunctionCode == FuncCodeWriteMultipleCoils && selfEq(p2.Data, []byte{1, 2, 3}), "self: TCP decode")
	vCover("self modbus: done")
}

func selfU16(a, b []uint16) bool {
	if len(a) != len(b) {
		return false
	}
	for i := range a {
		if a[i] != b[i] {
			return false
		}
	}
	return true
}
