package main

import (
	"fmt"
	"go/types"
	"os"
	"strings"
)

// Harness API (functions named v* in the package under test, declared in
// zz_verif_rt.go with native bodies; the engine intercepts them by name).

var vIntrinsics = map[string]intrinsic{}

func init() {
	scalar := func(kind string, w int) intrinsic {
		return func(in *Interp, fr *frame, args []Value) Value {
			return in.nondetVar(kind, w)
		}
	}
	vIntrinsics["vBool"] = scalar("bool", 0)
	vIntrinsics["vU8"] = scalar("u8", 8)
	vIntrinsics["vU16"] = scalar("u16", 16)
	vIntrinsics["vU32"] = scalar("u32", 32)
	vIntrinsics["vU64"] = scalar("u64", 64)
	vIntrinsics["vI8"] = scalar("i8", 8)
	vIntrinsics["vI16"] = scalar("i16", 16)
	vIntrinsics["vI32"] = scalar("i32", 32)
	vIntrinsics["vI64"] = scalar("i64", 64)
	vIntrinsics["vInt"] = scalar("int", 64)
	vIntrinsics["vF64"] = scalar("f64", 64)
	vIntrinsics["vF32"] = scalar("f32", 32)
	vIntrinsics["vChoose"] = func(in *Interp, fr *frame, args []Value) Value {
		n := args[0].(*Term)
		if n.op != OpConst {
			in.unsupported("vChoose with symbolic bound")
		}
		var k int
		if fx := in.cfg.Fixed; fx != nil && len(in.path.nondet) < len(fx) && len(fx[len(in.path.nondet)].Vals) > 0 {
			k = int(fx[len(in.path.nondet)].Vals[0])
		} else {
			k = in.choose(int(n.val))
		}
		t := in.tt.BV(64, uint64(k))
		in.path.nondet = append(in.path.nondet, NondetRec{Kind: "choose", Terms: []*Term{t}})
		return t
	}
	vIntrinsics["vRange"] = func(in *Interp, fr *frame, args []Value) Value {
		lo, hi := args[0].(*Term), args[1].(*Term)
		v := in.nondetVar("int", 64)
		if v.op == OpConst {
			return v
		}
		in.addPC(in.tt.Cmp(OpSle, lo, v))
		in.addPC(in.tt.Cmp(OpSle, v, hi))
		return v
	}
	vIntrinsics["vBytes"] = func(in *Interp, fr *frame, args []Value) Value {
		n := args[0].(*Term)
		if n.op != OpConst {
			in.unsupported("vBytes with symbolic length")
		}
		p := in.path
		rec := NondetRec{Kind: "bytes"}
		idx := len(p.nondet)
		bs := make([]*Term, n.val)
		for i := range bs {
			bs[i] = in.tt.Var(fmt.Sprintf("n%d_b%d", idx, i), 8)
			if fx := in.cfg.Fixed; fx != nil && idx < len(fx) && i < len(fx[idx].Vals) {
				bs[i] = in.tt.BV(8, fx[idx].Vals[i])
			}
			rec.Terms = append(rec.Terms, bs[i])
		}
		p.nondet = append(p.nondet, rec)
		if n.val == 0 {
			// non-nil empty slice
			return Slice{arr: in.newArray(0, types.Typ[types.Uint8]), len: in.zero64, cap: in.zero64}
		}
		return in.sliceOfBytes(bs)
	}
	vIntrinsics["vStr"] = func(in *Interp, fr *frame, args []Value) Value {
		n := args[0].(*Term)
		if n.op != OpConst {
			in.unsupported("vStr with symbolic length")
		}
		p := in.path
		rec := NondetRec{Kind: "str"}
		idx := len(p.nondet)
		bs := make([]*Term, n.val)
		for i := range bs {
			bs[i] = in.tt.Var(fmt.Sprintf("n%d_s%d", idx, i), 8)
			if fx := in.cfg.Fixed; fx != nil && idx < len(fx) && i < len(fx[idx].Vals) {
				bs[i] = in.tt.BV(8, fx[idx].Vals[i])
			}
			rec.Terms = append(rec.Terms, bs[i])
		}
		p.nondet = append(p.nondet, rec)
		return Str{b: bs}
	}
	vIntrinsics["vAssume"] = func(in *Interp, fr *frame, args []Value) Value {
		c := args[0].(*Term)
		if c.IsFalse() {
			in.abort(abInfeasible, "assume false")
		}
		if c.IsTrue() {
			return nil
		}
		if v, ok := in.knownVal(c); ok {
			if !v {
				in.abort(abInfeasible, "assume contradicts path")
			}
			return nil
		}
		in.addPC(c)
		// keep the invariant that the path condition is satisfiable
		res, _ := in.check(nil, nil)
		if res == "unsat" {
			in.abort(abInfeasible, "assume unsat")
		}
		return nil
	}
	vIntrinsics["vAssert"] = func(in *Interp, fr *frame, args []Value) Value {
		msg, _ := args[1].(Str).conc()
		in.assertTerm(args[0].(*Term), msg)
		return nil
	}
	vIntrinsics["vCover"] = func(in *Interp, fr *frame, args []Value) Value {
		msg, _ := args[0].(Str).conc()
		in.pathCovers[msg] = true
		return nil
	}
	vIntrinsics["vParam"] = func(in *Interp, fr *frame, args []Value) Value {
		name, _ := args[0].(Str).conc()
		def := args[1].(*Term)
		if v, ok := in.cfg.Params[name]; ok {
			return in.tt.BV(64, uint64(int64(v)))
		}
		return def
	}
	vIntrinsics["vSymbolic"] = func(in *Interp, fr *frame, args []Value) Value { return in.tt.T }
	// vFuncU16Bool returns an arbitrary (uninterpreted) predicate on uint16.
	vIntrinsics["vFuncU16Bool"] = func(in *Interp, fr *frame, args []Value) Value {
		p := in.path
		p.fresh++
		name := fmt.Sprintf("uf%d", p.fresh)
		return &NativeFunc{name: name, f: func(in *Interp, caller *frame, a []Value) Value {
			app := in.tt.App(0, name, a[0].(*Term))
			in.path.nondet = append(in.path.nondet, NondetRec{Kind: "ufret", Terms: []*Term{app}})
			return app
		}}
	}
	vIntrinsics["vObserve"] = func(in *Interp, fr *frame, args []Value) Value {
		return nil
	}
	// vDebug(label, values...) prints engine values when tracing (engine only)
	vIntrinsics["vDebug"] = func(in *Interp, fr *frame, args []Value) Value {
		if in.cfg.Trace && in.path != nil {
			var vs []Value
			if sl, ok := args[1].(Slice); ok && sl.arr != nil {
				vs = in.sliceElems(sl)
			}
			lbl0, _ := args[0].(Str).conc()
			in.path.debug = append(in.path.debug, debugRec{lbl0, vs})
		}
		if in.cfg.Trace {
			lbl, _ := args[0].(Str).conc()
			var parts []string
			if sl, ok := args[1].(Slice); ok && sl.arr != nil {
				for _, e := range in.sliceElems(sl) {
					parts = append(parts, showValue(e))
				}
			}
			fmt.Fprintf(os.Stderr, "DEBUG %s: %s\n", lbl, strings.Join(parts, " | "))
		}
		return nil
	}
	// vIsConcrete-style helpers are deliberately absent: harness code must
	// behave identically under the engine and natively.
	vIntrinsics["vnext"] = func(in *Interp, fr *frame, args []Value) Value {
		in.unsupported("vnext called directly")
		return nil
	}
	vIntrinsics["vPanics"] = func(in *Interp, fr *frame, args []Value) Value {
		// vPanics(f) runs f and reports whether it panicked (target panic).
		fn := args[0]
		panicked := false
		func() {
			defer func() {
				if r := recover(); r != nil {
					if _, ok := r.(targetPanic); ok {
						panicked = true
						return
					}
					panic(r)
				}
			}()
			in.callFunction(fr, fn, nil)
		}()
		in.curFrame = fr
		return in.tt.Bool(panicked)
	}
}
