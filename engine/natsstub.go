package main

// NATS connection stub (DESIGN.md section 3.4). A *nats.Conn is a pointer to
// an engine object holding an event log of everything published, the
// registered subscriptions and an optional harness-supplied responder that
// answers Request. Nothing is delivered on its own: the harness invokes
// recorded handlers itself.

import (
	"fmt"
	"go/types"
	"strings"

	"golang.org/x/tools/go/ssa"
)

const natsPkg = "github.com/nats-io/nats.go"

type natsEvent struct {
	kind    string // pub | req | respond
	subject Str
	data    Slice
	reply   Str
}

type natsSub struct {
	subject Str
	handler Value
}

type natsServed struct {
	pattern []string
	handler Value
}

type natsConn struct {
	served    []natsServed
	inbox     int
	events    []natsEvent
	subs      []*natsSub
	responder Value // func(subject string, data []byte) ([]byte, bool)
	closed    bool
}

func (in *Interp) connOf(v Value) *natsConn {
	p, _ := v.(*Value)
	if p == nil {
		in.targetPanic("runtime error: invalid memory address or nil pointer dereference (nil *nats.Conn)")
	}
	o, ok := (*p).(*Opaque)
	if !ok || o.kind != "natsconn" {
		in.unsupported("*nats.Conn not created by vConn")
	}
	return o.data.(*natsConn)
}

func (in *Interp) natsType(name string) types.Type {
	pkg := in.prog.ImportedPackage(natsPkg)
	if pkg == nil {
		in.unsupported("nats package not loaded")
	}
	return pkg.Type(name).Object().Type()
}

// newNatsMsg builds a *nats.Msg with the given fields.
func (in *Interp) newNatsMsg(subject, reply Str, data Slice, conn Value) Value {
	t := in.natsType("Msg")
	v := in.zero(t).(Struct)
	st := t.Underlying().(*types.Struct)
	for i := 0; i < st.NumFields(); i++ {
		switch st.Field(i).Name() {
		case "Subject":
			v[i] = subject
		case "Reply":
			v[i] = reply
		case "Data":
			v[i] = data
		case "Sub":
			// keep the connection reachable for Respond
			sp := new(Value)
			*sp = &Opaque{kind: "natssub", data: conn}
			v[i] = sp
		}
	}
	p := new(Value)
	*p = v
	return p
}

func (in *Interp) msgField(msg Value, name string) Value {
	p, _ := msg.(*Value)
	if p == nil {
		in.targetPanic("runtime error: invalid memory address or nil pointer dereference (nil *nats.Msg)")
	}
	st := in.natsType("Msg").Underlying().(*types.Struct)
	s := (*p).(Struct)
	for i := 0; i < st.NumFields(); i++ {
		if st.Field(i).Name() == name {
			return s[i]
		}
	}
	return nil
}

func (in *Interp) natsErr(msg string) Value {
	return in.makeError(concStr(in.tt, msg))
}

func init() {
	pre := "(*" + natsPkg + ".Conn)."
	intrinsics[pre+"Publish"] = func(in *Interp, fr *frame, args []Value) Value {
		c := in.connOf(args[0])
		c.events = append(c.events, natsEvent{kind: "pub", subject: args[1].(Str), data: args[2].(Slice)})
		if len(c.served) > 0 {
			if _, conc := args[1].(Str).conc(); conc {
				if h := in.natsMatch(c, args[1].(Str)); h != nil {
					in.callFunction(fr, h, []Value{in.newNatsMsg(args[1].(Str), Str{}, args[2].(Slice), args[0])})
					in.curFrame = fr
				}
			}
		}
		return Iface{}
	}
	intrinsics[pre+"PublishRequest"] = func(in *Interp, fr *frame, args []Value) Value {
		c := in.connOf(args[0])
		c.events = append(c.events, natsEvent{kind: "pub", subject: args[1].(Str), reply: args[2].(Str), data: args[3].(Slice)})
		return Iface{}
	}
	intrinsics[pre+"Request"] = func(in *Interp, fr *frame, args []Value) Value {
		c := in.connOf(args[0])
		subj, data := args[1].(Str), args[2].(Slice)
		c.events = append(c.events, natsEvent{kind: "req", subject: subj, data: data})
		if h := in.natsMatch(c, subj); h != nil {
			c.inbox++
			reply := concStr(in.tt, fmt.Sprintf("_INBOX.%d", c.inbox))
			mark := len(c.events)
			in.callFunction(fr, h, []Value{in.newNatsMsg(subj, reply, data, args[0])})
			in.curFrame = fr
			for _, e := range c.events[mark:] {
				if (e.kind == "pub" || e.kind == "respond") && in.strEq(e.subject, reply).IsTrue() {
					return Tuple{in.newNatsMsg(reply, Str{}, e.data, args[0]), Iface{}}
				}
			}
			return Tuple{(*Value)(nil), in.natsErr("nats: timeout")}
		}
		if c.responder == nil {
			return Tuple{(*Value)(nil), in.natsErr("nats: no responders available for request")}
		}
		r := in.callFunction(fr, c.responder, []Value{subj, data}).(Tuple)
		in.curFrame = fr
		if ok := r[1].(*Term); !in.branch(ok) {
			return Tuple{(*Value)(nil), in.natsErr("nats: timeout")}
		}
		return Tuple{in.newNatsMsg(subj, Str{}, r[0].(Slice), args[0]), Iface{}}
	}
	sub := func(in *Interp, fr *frame, args []Value) Value {
		c := in.connOf(args[0])
		s := &natsSub{subject: args[1].(Str), handler: args[len(args)-1]}
		c.subs = append(c.subs, s)
		p := new(Value)
		*p = &Opaque{kind: "natssub", data: args[0]}
		return Tuple{p, Iface{}}
	}
	intrinsics[pre+"Subscribe"] = sub
	intrinsics[pre+"QueueSubscribe"] = sub
	intrinsics[pre+"Close"] = noop
	intrinsics[pre+"Flush"] = func(in *Interp, fr *frame, args []Value) Value { return Iface{} }
	intrinsics[pre+"FlushTimeout"] = func(in *Interp, fr *frame, args []Value) Value { return Iface{} }
	intrinsics[pre+"Drain"] = func(in *Interp, fr *frame, args []Value) Value { return Iface{} }
	intrinsics["(*"+natsPkg+".Subscription).Unsubscribe"] = func(in *Interp, fr *frame, args []Value) Value { return Iface{} }
	intrinsics["(*"+natsPkg+".Subscription).Drain"] = func(in *Interp, fr *frame, args []Value) Value { return Iface{} }
	intrinsics["(*"+natsPkg+".Msg).Respond"] = func(in *Interp, fr *frame, args []Value) Value {
		subp, _ := in.msgField(args[0], "Sub").(*Value)
		if subp == nil {
			return in.natsErr("nats: message does not have a subscription")
		}
		conn := (*subp).(*Opaque).data.(Value)
		c := in.connOf(conn)
		reply, _ := in.msgField(args[0], "Reply").(Str)
		c.events = append(c.events, natsEvent{kind: "respond", subject: reply, data: args[1].(Slice)})
		return Iface{}
	}

	// harness API ------------------------------------------------------------
	vIntrinsics["vConn"] = func(in *Interp, fr *frame, args []Value) Value {
		p := new(Value)
		*p = &Opaque{kind: "natsconn", data: &natsConn{}}
		return p
	}
	vIntrinsics["vConnNoEcho"] = vIntrinsics["vConn"]
	vIntrinsics["vOnRequest"] = func(in *Interp, fr *frame, args []Value) Value {
		in.connOf(args[0]).responder = args[1]
		return nil
	}
	// vEvents(nc) []vEvent  where type vEvent struct{Kind, Subject, Reply string; Data []byte}
	vIntrinsics["vEvents"] = func(in *Interp, fr *frame, args []Value) Value {
		c := in.connOf(args[0])
		et := fr.fn.Signature.Results().At(0).Type().Underlying().(*types.Slice).Elem()
		st := et.Underlying().(*types.Struct)
		var out []Value
		for _, e := range c.events {
			v := in.zero(et).(Struct)
			for i := 0; i < st.NumFields(); i++ {
				switch st.Field(i).Name() {
				case "Kind":
					v[i] = concStr(in.tt, e.kind)
				case "Subject":
					v[i] = e.subject
				case "Reply":
					v[i] = e.reply
				case "Data":
					v[i] = e.data
				}
			}
			out = append(out, v)
		}
		return in.sliceOfValues(out, func() Value { return in.zero(et) })
	}
	// vDeliver(nc, subIndex, subject, reply, data): invoke a recorded handler
	vIntrinsics["vDeliver"] = func(in *Interp, fr *frame, args []Value) Value {
		c := in.connOf(args[0])
		i := args[1].(*Term)
		if i.op != OpConst || int(i.val) >= len(c.subs) {
			in.unsupported(fmt.Sprintf("vDeliver: no subscription %v (have %d)", showValue(i), len(c.subs)))
		}
		s := c.subs[i.val]
		msg := in.newNatsMsg(args[2].(Str), args[3].(Str), args[4].(Slice), args[0])
		in.callFunction(fr, s.handler, []Value{msg})
		in.curFrame = fr
		return nil
	}
	vIntrinsics["vSubCount"] = func(in *Interp, fr *frame, args []Value) Value {
		return in.tt.BV(64, uint64(len(in.connOf(args[0]).subs)))
	}
	vIntrinsics["vSubSubject"] = func(in *Interp, fr *frame, args []Value) Value {
		c := in.connOf(args[0])
		i := args[1].(*Term)
		if i.op != OpConst || int(i.val) >= len(c.subs) {
			in.unsupported("vSubSubject: no such subscription")
		}
		return c.subs[i.val].subject
	}
	// vServe(nc, subject, handler): natively a subscription; in the engine a
	// Request (or a Publish, fire-and-forget) on a matching subject invokes
	// the handler synchronously.
	vIntrinsics["vServe"] = func(in *Interp, fr *frame, args []Value) Value {
		c := in.connOf(args[0])
		pat, ok := args[1].(Str).conc()
		if !ok {
			in.unsupported("vServe with symbolic subject")
		}
		c.served = append(c.served, natsServed{pattern: strings.Split(pat, "."), handler: args[2]})
		return nil
	}
	// vPublish(nc, subject, data): a message arrives on the bus from another
	// party: every subscription made through nc.Subscribe whose pattern
	// matches gets it (synchronously, in subscription order).
	vIntrinsics["vPublish"] = func(in *Interp, fr *frame, args []Value) Value {
		c := in.connOf(args[0])
		subj := args[1].(Str)
		s, ok := subj.conc()
		if !ok {
			in.unsupported("vPublish with symbolic subject")
		}
		toks := strings.Split(s, ".")
		for _, sub := range append([]*natsSub{}, c.subs...) {
			pat, ok := sub.subject.conc()
			if !ok || !subjectMatch(strings.Split(pat, "."), toks) {
				continue
			}
			in.callFunction(fr, sub.handler, []Value{in.newNatsMsg(subj, Str{}, args[2].(Slice), args[0])})
			in.curFrame = fr
		}
		return nil
	}
	// vGo(f): natively `go f()`; in the engine f runs to completion at once,
	// its channel operations are queued in program order (see selectOp).
	vIntrinsics["vGo"] = func(in *Interp, fr *frame, args []Value) Value {
		in.callFunction(fr, args[0], nil)
		in.curFrame = fr
		return nil
	}
}

var _ = ssa.NaiveForm

// natsMatch finds a served handler whose pattern matches the (concrete)
// subject; * matches one token, > the rest.
func (in *Interp) natsMatch(c *natsConn, subj Str) Value {
	if len(c.served) == 0 {
		return nil
	}
	s, ok := subj.conc()
	if !ok {
		in.unsupported("request on a symbolic subject with served handlers")
	}
	toks := strings.Split(s, ".")
	for _, sv := range c.served {
		if subjectMatch(sv.pattern, toks) {
			return sv.handler
		}
	}
	return nil
}

func subjectMatch(pattern, toks []string) bool {
	for i, p := range pattern {
		if p == ">" {
			return i < len(toks)
		}
		if i >= len(toks) || (p != "*" && p != toks[i]) {
			return false
		}
	}
	return len(toks) == len(pattern)
}
