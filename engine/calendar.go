package main

// Calendar layer of the time model (DESIGN.md section 3.2, as built): an
// instant may carry parts (UTC day number since 1970-01-01 — concrete —,
// second of day and nanosecond — symbolic). Calendar accessors are computed
// from the concrete day with Go's own time package, comparisons between
// instants with parts are lexicographic on the parts, so no multiplication or
// division by 10^9 is ever encoded. Structured strings ("hh:mm",
// "yyyy-mm-dd") carry the numbers they print; regexp and Atoi are modelled on
// those only.

import (
	"fmt"
	"regexp"
	"time"
)

type tparts struct {
	day int64 // days since the Unix epoch (UTC)
	sec *Term // 64-bit, 0..86399
	ns  *Term // 64-bit, 0..999999999
}

type zoneInfo struct{ off *Term } // seconds east of UTC, 64-bit

func (in *Interp) partsOf(v Value) *tparts {
	s, ok := v.(Struct)
	if !ok || len(s) != 3 || in.path == nil {
		return nil
	}
	k, _ := s[1].(*Term)
	return in.path.timeParts[k]
}

func (in *Interp) newPartsTime(p *tparts, loc Value) Value {
	k := in.freshVar(64)
	in.path.timeParts[k] = p
	if loc == nil {
		loc = (*Value)(nil)
	}
	return Struct{in.tt.BV(64, 1), k, loc}
}

// timeNS gives the Unix nanoseconds of an instant as a term.
func (in *Interp) timeNS(v Value) *Term {
	if p := in.partsOf(v); p != nil {
		tt := in.tt
		base := tt.BV(64, uint64(p.day*86400*1_000_000_000))
		return tt.Bin(OpAdd, tt.Bin(OpAdd, base, tt.Bin(OpMul, p.sec, tt.BV(64, 1_000_000_000))), p.ns)
	}
	return v.(Struct)[1].(*Term)
}

func (in *Interp) zoneOf(v Value) *zoneInfo {
	s := v.(Struct)
	p, _ := s[2].(*Value)
	if p == nil {
		return nil
	}
	if o, ok := (*p).(*Opaque); ok && o.kind == "zone" {
		return o.data.(*zoneInfo)
	}
	return nil
}

// localDay returns the (concrete) day number and second of day of v in its own
// zone, forking on the day shift the zone offset causes.
func (in *Interp) localDay(v Value, what string) (int64, *Term) {
	p := in.partsOf(v)
	if p == nil {
		in.unsupported("calendar accessor " + what + " on an instant without calendar parts")
	}
	z := in.zoneOf(v)
	if z == nil {
		return p.day, p.sec
	}
	tt := in.tt
	ls := tt.Bin(OpAdd, p.sec, z.off)
	if in.branch(tt.Cmp(OpSlt, ls, tt.BV(64, 0))) {
		return p.day - 1, tt.Bin(OpAdd, ls, tt.BV(64, 86400))
	}
	if in.branch(tt.Cmp(OpSle, tt.BV(64, 86400), ls)) {
		return p.day + 1, tt.Bin(OpSub, ls, tt.BV(64, 86400))
	}
	return p.day, ls
}

func civil(day int64) time.Time { return time.Unix(day*86400, 0).UTC() }

// timeLess compares instants: lexicographically on parts when both have them.
func (in *Interp) timeLess(a, b Value, orEq bool) *Term {
	tt := in.tt
	pa, pb := in.partsOf(a), in.partsOf(b)
	if pa != nil && pb != nil {
		if pa.day != pb.day {
			return tt.Bool(pa.day < pb.day)
		}
		ltS := tt.Cmp(OpSlt, pa.sec, pb.sec)
		eqS := tt.Eq(pa.sec, pb.sec)
		var last *Term
		if orEq {
			last = tt.Cmp(OpSle, pa.ns, pb.ns)
		} else {
			last = tt.Cmp(OpSlt, pa.ns, pb.ns)
		}
		return tt.Or(ltS, tt.And(eqS, last))
	}
	ka, kb := in.timeKey(a), in.timeKey(b)
	if orEq {
		return tt.Cmp(OpSle, ka, kb)
	}
	return tt.Cmp(OpSlt, ka, kb)
}

func (in *Interp) timeEq(a, b Value) *Term {
	tt := in.tt
	pa, pb := in.partsOf(a), in.partsOf(b)
	if pa != nil && pb != nil {
		if pa.day != pb.day {
			return tt.F
		}
		return tt.And(tt.Eq(pa.sec, pb.sec), tt.Eq(pa.ns, pb.ns))
	}
	return tt.Eq(in.timeKey(a), in.timeKey(b))
}

func digits(in *Interp, v *Term, n int) []*Term {
	// decimal digits of a small non-negative 64-bit term, most significant first
	tt := in.tt
	out := make([]*Term, n)
	cur := v
	for i := n - 1; i >= 0; i-- {
		d := tt.Bin(OpURem, cur, tt.BV(64, 10))
		out[i] = tt.Bin(OpAdd, tt.Extract(d, 7, 0), tt.BV(8, '0'))
		cur = tt.Bin(OpUDiv, cur, tt.BV(64, 10))
	}
	return out
}

func init() {
	// harness API ---------------------------------------------------------
	vIntrinsics["vInstant"] = func(in *Interp, fr *frame, args []Value) Value {
		day, sec, ns, off := args[0].(*Term), args[1].(*Term), args[2].(*Term), args[3].(*Term)
		if day.op != OpConst {
			in.unsupported("vInstant with a symbolic day")
		}
		var loc Value = (*Value)(nil)
		if !(off.op == OpConst && off.val == 0) {
			p := new(Value)
			*p = &Opaque{kind: "zone", data: &zoneInfo{off: off}}
			loc = p
		}
		return in.newPartsTime(&tparts{day: day.sval(), sec: sec, ns: ns}, loc)
	}
	vIntrinsics["vHourMin"] = func(in *Interp, fr *frame, args []Value) Value {
		h, m := args[0].(*Term), args[1].(*Term)
		b := append(digits(in, h, 2), in.tt.BV(8, ':'))
		b = append(b, digits(in, m, 2)...)
		return Str{b: b, tag: &strTag{kind: "hourmin", vals: []*Term{h, m}}}
	}
	vIntrinsics["vDateStr"] = func(in *Interp, fr *frame, args []Value) Value {
		y, m, d := args[0].(*Term), args[1].(*Term), args[2].(*Term)
		b := append(digits(in, y, 4), in.tt.BV(8, '-'))
		b = append(b, digits(in, m, 2)...)
		b = append(b, in.tt.BV(8, '-'))
		b = append(b, digits(in, d, 2)...)
		return Str{b: b, tag: &strTag{kind: "date", vals: []*Term{y, m, d}}}
	}

	// regexp on structured strings ------------------------------------------
	intrinsics["regexp.MustCompile"] = func(in *Interp, fr *frame, args []Value) Value {
		pat, _ := args[0].(Str).conc()
		p := new(Value)
		*p = &Opaque{kind: "regexp", data: pat}
		return p
	}
	intrinsics["(*regexp.Regexp).FindStringSubmatch"] = func(in *Interp, fr *frame, args []Value) Value {
		rp, _ := args[0].(*Value)
		if rp == nil {
			in.unsupported("regexp: nil receiver (package initialiser not run?)")
		}
		re, ok := (*rp).(*Opaque)
		if !ok || re.kind != "regexp" {
			in.unsupported("regexp: unknown receiver")
		}
		s := args[1].(Str)
		pat := re.data.(string)
		zero := func() Value { return Str{} }
		num := func(b []*Term, v *Term) Value { return Str{b: b, tag: &strTag{kind: "num", vals: []*Term{v}}} }
		switch {
		case pat == `(\d{1,2}):(\d\d)` && s.tag != nil && s.tag.kind == "hourmin":
			return in.sliceOfValues([]Value{s, num(s.b[0:2], s.tag.vals[0]), num(s.b[3:5], s.tag.vals[1])}, zero)
		case pat == `(\d{4})-(\d{2})-(\d{2})` && s.tag != nil && s.tag.kind == "date":
			return in.sliceOfValues([]Value{s, num(s.b[0:4], s.tag.vals[0]), num(s.b[5:7], s.tag.vals[1]), num(s.b[8:10], s.tag.vals[2])}, zero)
		}
		if cs, ok := s.conc(); ok {
			// concrete subject: Go's own regexp decides
			re, err := regexp.Compile(pat)
			if err != nil {
				in.unsupported("regexp: " + err.Error())
			}
			m := re.FindStringSubmatch(cs)
			if m == nil {
				return Slice{len: in.zero64, cap: in.zero64}
			}
			out := make([]Value, len(m))
			for i := range m {
				out[i] = concStr(in.tt, m[i])
			}
			return in.sliceOfValues(out, zero)
		}
		in.unsupported(fmt.Sprintf("regexp %q on an unstructured string", pat))
		return nil
	}
	intrinsics["strconv.Atoi"] = func(in *Interp, fr *frame, args []Value) Value {
		s := args[0].(Str)
		if s.tag != nil && s.tag.kind == "num" {
			return Tuple{s.tag.vals[0], Iface{}}
		}
		return fallThrough
	}

	// calendar -----------------------------------------------------------------
	intrinsics["time.FixedZone"] = func(in *Interp, fr *frame, args []Value) Value {
		p := new(Value)
		*p = &Opaque{kind: "zone", data: &zoneInfo{off: args[1].(*Term)}}
		return p
	}
	intrinsics["(time.Time).In"] = func(in *Interp, fr *frame, args []Value) Value {
		s := args[0].(Struct)
		return Struct{s[0], s[1], args[1]}
	}
	intrinsics["(time.Time).Location"] = func(in *Interp, fr *frame, args []Value) Value {
		return args[0].(Struct)[2]
	}
	intrinsics["(time.Time).Year"] = func(in *Interp, fr *frame, args []Value) Value {
		d, _ := in.localDay(args[0], "Year")
		return in.tt.BV(64, uint64(civil(d).Year()))
	}
	intrinsics["(time.Time).Month"] = func(in *Interp, fr *frame, args []Value) Value {
		d, _ := in.localDay(args[0], "Month")
		return in.tt.BV(64, uint64(civil(d).Month()))
	}
	intrinsics["(time.Time).Day"] = func(in *Interp, fr *frame, args []Value) Value {
		d, _ := in.localDay(args[0], "Day")
		return in.tt.BV(64, uint64(civil(d).Day()))
	}
	intrinsics["(time.Time).Date"] = func(in *Interp, fr *frame, args []Value) Value {
		d, _ := in.localDay(args[0], "Date")
		c := civil(d)
		return Tuple{in.tt.BV(64, uint64(c.Year())), in.tt.BV(64, uint64(c.Month())), in.tt.BV(64, uint64(c.Day()))}
	}
	intrinsics["(time.Time).Weekday"] = func(in *Interp, fr *frame, args []Value) Value {
		d, _ := in.localDay(args[0], "Weekday")
		return in.tt.BV(64, uint64(civil(d).Weekday()))
	}
	intrinsics["(time.Time).YearDay"] = func(in *Interp, fr *frame, args []Value) Value {
		d, _ := in.localDay(args[0], "YearDay")
		return in.tt.BV(64, uint64(civil(d).YearDay()))
	}
	intrinsics["(time.Time).Hour"] = func(in *Interp, fr *frame, args []Value) Value {
		_, s := in.localDay(args[0], "Hour")
		return in.tt.Bin(OpUDiv, s, in.tt.BV(64, 3600))
	}
	intrinsics["(time.Time).Minute"] = func(in *Interp, fr *frame, args []Value) Value {
		_, s := in.localDay(args[0], "Minute")
		tt := in.tt
		return tt.Bin(OpUDiv, tt.Bin(OpURem, s, tt.BV(64, 3600)), tt.BV(64, 60))
	}
	intrinsics["(time.Time).Second"] = func(in *Interp, fr *frame, args []Value) Value {
		_, s := in.localDay(args[0], "Second")
		return in.tt.Bin(OpURem, s, in.tt.BV(64, 60))
	}
	intrinsics["time.Date"] = func(in *Interp, fr *frame, args []Value) Value {
		tt := in.tt
		y, mo, d := args[0].(*Term), args[1].(*Term), args[2].(*Term)
		h, mi, se, ns := args[3].(*Term), args[4].(*Term), args[5].(*Term), args[6].(*Term)
		if y.op != OpConst || mo.op != OpConst || d.op != OpConst {
			in.unsupported("time.Date with a symbolic calendar date")
		}
		if lp, _ := args[7].(*Value); lp != nil {
			if _, isZone := (*lp).(*Opaque); isZone {
				in.unsupported("time.Date in a non-UTC zone")
			}
		}
		// clock fields must be in range (normalisation of out-of-range clock values is not modelled)
		inr := tt.And(tt.And(tt.Cmp(OpSle, tt.BV(64, 0), h), tt.Cmp(OpSlt, h, tt.BV(64, 24))),
			tt.And(tt.And(tt.Cmp(OpSle, tt.BV(64, 0), mi), tt.Cmp(OpSlt, mi, tt.BV(64, 60))),
				tt.And(tt.And(tt.Cmp(OpSle, tt.BV(64, 0), se), tt.Cmp(OpSlt, se, tt.BV(64, 60))),
					tt.And(tt.Cmp(OpSle, tt.BV(64, 0), ns), tt.Cmp(OpSlt, ns, tt.BV(64, 1_000_000_000))))))
		if !in.branch(inr) {
			in.unsupported("time.Date with out-of-range clock fields")
		}
		base := time.Date(int(y.sval()), time.Month(mo.sval()), int(d.sval()), 0, 0, 0, 0, time.UTC)
		day := base.Unix() / 86400
		if base.Unix()%86400 != 0 {
			in.unsupported("time.Date: internal day computation")
		}
		sec := tt.Bin(OpAdd, tt.Bin(OpAdd, tt.Bin(OpMul, h, tt.BV(64, 3600)), tt.Bin(OpMul, mi, tt.BV(64, 60))), se)
		return in.newPartsTime(&tparts{day: day, sec: sec, ns: ns}, nil)
	}
	intrinsics["(time.Time).AddDate"] = func(in *Interp, fr *frame, args []Value) Value {
		y, m, d := args[1].(*Term), args[2].(*Term), args[3].(*Term)
		p := in.partsOf(args[0])
		if p == nil || y.op != OpConst || m.op != OpConst || d.op != OpConst || y.val != 0 || m.val != 0 {
			in.unsupported("AddDate other than (0,0,k) on an instant with calendar parts")
		}
		if in.zoneOf(args[0]) != nil {
			in.unsupported("AddDate on a non-UTC instant")
		}
		return in.newPartsTime(&tparts{day: p.day + d.sval(), sec: p.sec, ns: p.ns}, nil)
	}
}
