package main

import (
	"fmt"
	"go/constant"
	"go/token"
	"go/types"
	"math"
	"runtime"
	"strings"

	"golang.org/x/tools/go/ssa"
)

func runtimeStack(buf []byte) int { return runtime.Stack(buf, false) }

type Config struct {
	Unwind             int // symbolic decisions per If instruction per frame
	MaxDepth           int // call depth
	MaxDecisions       int
	MaxConcretize      int
	MaxSteps           int
	MaxViolations      int
	PanicIsViolation   bool
	UnwindIsViolation  bool
	BlockedIsViolation bool
	WitnessEvery       int
	MaxWitnesses       int
	Params             map[string]int  // harness parameters (vParam)
	UFs                map[string]bool // functions summarised as uninterpreted functions
	Noops              map[string]bool // functions replaced by a no-op returning zero values
	Fixed              []InputVal      // debugging: concrete values for the harness inputs
	fixedChoose        func(in *Interp) (int, bool)
	Trace              bool
}

func DefaultConfig() *Config {
	return &Config{Unwind: 64, MaxDepth: 200, MaxDecisions: 4000, MaxConcretize: 300, MaxSteps: 5_000_000,
		MaxViolations: 20, PanicIsViolation: true, WitnessEvery: 0, MaxWitnesses: 8, Params: map[string]int{}}
}

type targetPanic struct{ v Value }

// fallThrough is returned by an intrinsic that declines a call: the real
// body is executed instead.
var fallThrough = &Opaque{kind: "fallthrough"}

type fnInfo struct {
	index map[ssa.Value]int
	n     int
}

// Interp is one worker's interpreter state.
type Interp struct {
	prog         *ssa.Program
	tt           *TermTable
	solver       *Solver
	cfg          *Config
	work         *WorkList
	res          *Results
	globals      map[*ssa.Global]*Value
	inited       map[*ssa.Package]int // 0 no, 1 running, 2 done
	fnInfos      map[*ssa.Function]*fnInfo
	journal      []journalEntry
	journaling   bool
	path         *PathState
	stats        pathStats
	harnessFn    *ssa.Function
	harnessPkg   *ssa.Package
	curFrame     *frame
	initDepth    int
	zero64       *Term
	pathCovers   map[string]bool
	solverBroken bool
	shared       *Shared
	errType      types.Type
	goList       []*Closure
	funcsSeen    map[*ssa.Function]int
	stubsSeen    map[string]int
	deadline     int64
	constCache   map[*ssa.Const]Value
	fmtLenient   bool
	lastNow      *Term
	rtypes       map[string]*Value
	chanSeq      int
	spec         *specCtx
	noSpec       bool
	simpleBlocks map[*ssa.BasicBlock]bool
}

// Shared is read-mostly state common to all workers.
type Shared struct {
	prog     *ssa.Program
	allowPkg func(path string) bool
}

type deferred struct {
	fn   Value
	args []Value
	tail *deferred
}

type frame struct {
	in        *Interp
	caller    *frame
	fn        *ssa.Function
	info      *fnInfo
	env       []Value
	block     *ssa.BasicBlock
	prev      *ssa.BasicBlock
	defers    *deferred
	result    Value
	panicking bool
	panicVal  interface{}
	curInstr  ssa.Instruction
	symCount  map[ssa.Instruction]int
	depth     int
	phisDone  bool
}

func NewInterp(sh *Shared, cfg *Config, solver *Solver) *Interp {
	in := &Interp{prog: sh.prog, tt: NewTermTable(), solver: solver, cfg: cfg, shared: sh,
		globals: map[*ssa.Global]*Value{}, inited: map[*ssa.Package]int{}, fnInfos: map[*ssa.Function]*fnInfo{},
		funcsSeen: map[*ssa.Function]int{}, stubsSeen: map[string]int{}, constCache: map[*ssa.Const]Value{}, simpleBlocks: map[*ssa.BasicBlock]bool{}, rtypes: map[string]*Value{}}
	in.zero64 = in.tt.BV(64, 0)
	return in
}

func (in *Interp) info(fn *ssa.Function) *fnInfo {
	if fi, ok := in.fnInfos[fn]; ok {
		return fi
	}
	fi := &fnInfo{index: map[ssa.Value]int{}}
	add := func(v ssa.Value) {
		fi.index[v] = fi.n
		fi.n++
	}
	for _, p := range fn.Params {
		add(p)
	}
	for _, p := range fn.FreeVars {
		add(p)
	}
	for _, b := range fn.Blocks {
		for _, ins := range b.Instrs {
			if v, ok := ins.(ssa.Value); ok {
				add(v)
			}
		}
	}
	in.fnInfos[fn] = fi
	return fi
}

func (in *Interp) global(g *ssa.Global) *Value {
	if p, ok := in.globals[g]; ok {
		return p
	}
	p := new(Value)
	was := in.journaling
	in.journaling = false
	*p = in.zero(deref(g.Type()))
	in.journaling = was
	in.globals[g] = p
	return p
}

// ensureInit runs the package initialiser of pkg (concretely, tolerant of
// unsupported operations) the first time something of pkg is touched.
func (in *Interp) ensureInit(pkg *ssa.Package) {
	if pkg == nil || in.inited[pkg] != 0 {
		return
	}
	in.inited[pkg] = 1
	initFn := pkg.Func("init")
	if initFn == nil || initFn.Blocks == nil {
		in.inited[pkg] = 2
		return
	}
	if !in.shared.allowPkg(pkg.Pkg.Path()) {
		// globals of packages that are never entered stay zero
		in.inited[pkg] = 2
		return
	}
	wasJ := in.journaling
	savedPath := in.path
	savedFrame := in.curFrame
	in.journaling = false
	in.path = nil
	in.initDepth++
	func() {
		defer func() {
			if r := recover(); r != nil {
				if _, ok := r.(abortPath); ok {
					return // partial initialisation; poisoned values remain
				}
				if _, ok := r.(targetPanic); ok {
					return
				}
				return
			}
		}()
		in.callFunction(nil, initFn, nil)
	}()
	in.initDepth--
	in.journaling = wasJ
	in.path = savedPath
	in.curFrame = savedFrame
	in.inited[pkg] = 2
}

func (in *Interp) constValue(c *ssa.Const) Value {
	if v, ok := in.constCache[c]; ok {
		return v
	}
	v := in.constValue1(c)
	in.constCache[c] = v
	return v
}

func (in *Interp) constValue1(c *ssa.Const) Value {
	if c.Value == nil {
		return in.zero(c.Type())
	}
	t := c.Type().Underlying()
	if b, ok := t.(*types.Basic); ok {
		switch {
		case b.Info()&types.IsBoolean != 0:
			return in.tt.Bool(constant.BoolVal(c.Value))
		case b.Info()&types.IsString != 0:
			if c.Value.Kind() == constant.String {
				return concStr(in.tt, constant.StringVal(c.Value))
			}
		case b.Info()&types.IsInteger != 0:
			w := basicWidth(b.Kind())
			if b.Info()&types.IsUnsigned != 0 {
				return in.tt.BV(w, c.Uint64())
			}
			return in.tt.BV(w, uint64(c.Int64()))
		case b.Info()&types.IsFloat != 0:
			f := c.Float64()
			if basicWidth(b.Kind()) == 32 {
				return in.tt.BV(32, uint64(math.Float32bits(float32(f))))
			}
			return in.tt.BV(64, math.Float64bits(f))
		}
	}
	if _, ok := t.(*types.Interface); ok && c.Value == nil {
		return Iface{}
	}
	in.unsupported(fmt.Sprintf("constant %s of type %s", c, c.Type()))
	return nil
}

func (fr *frame) get(key ssa.Value) Value {
	switch key := key.(type) {
	case nil:
		return nil
	case *ssa.Function:
		return key
	case *ssa.Builtin:
		return key
	case *ssa.Const:
		return fr.in.constValue(key)
	case *ssa.Global:
		fr.in.ensureInit(key.Pkg)
		return fr.in.global(key)
	}
	if i, ok := fr.info.index[key]; ok {
		return fr.env[i]
	}
	panic(fmt.Sprintf("get: no value for %T %v in %s", key, key.Name(), fr.fn))
}

func (fr *frame) set(key ssa.Value, v Value) {
	fr.env[fr.info.index[key]] = v
}

func (in *Interp) targetPanic(msg string) {
	// runtime error as a Go panic value of type runtime.Error-like string
	panic(targetPanic{v: Iface{t: in.runtimeErrType(), v: concStr(in.tt, msg)}})
}

func (in *Interp) runtimeErrType() types.Type {
	if in.errType != nil {
		return in.errType
	}
	if p := in.prog.ImportedPackage("runtime"); p != nil {
		if t := p.Type("errorString"); t != nil {
			in.errType = t.Object().Type()
			return in.errType
		}
	}
	in.errType = types.Typ[types.String]
	return in.errType
}

func (in *Interp) panicString(v Value) string {
	if i, ok := v.(Iface); ok {
		if s, ok := i.v.(Str); ok {
			return s.show()
		}
		// error values: try Error field
		if p, ok := i.v.(*Value); ok && p != nil {
			return i.t.String() + " " + showValue(*p)
		}
		return fmt.Sprintf("%v %s", i.t, showValue(i.v))
	}
	return showValue(v)
}

// callFunction invokes a function value.
func (in *Interp) callFunction(caller *frame, fn Value, args []Value) Value {
	switch fn := fn.(type) {
	case *ssa.Function:
		if fn == nil {
			in.targetPanic("runtime error: invalid memory address or nil pointer dereference (call of nil func)")
		}
		return in.callSSA(caller, fn, args, nil)
	case *Closure:
		if fn == nil {
			in.targetPanic("runtime error: invalid memory address or nil pointer dereference (call of nil func)")
		}
		return in.callSSA(caller, fn.fn, args, fn.env)
	case *ssa.Builtin:
		return in.callBuiltin(caller, fn, args, nil)
	case *NativeFunc:
		return fn.f(in, caller, args)
	}
	in.unsupported(fmt.Sprintf("call of %T", fn))
	return nil
}

// NativeFunc is a function value implemented by the engine.
type NativeFunc struct {
	name string
	f    func(in *Interp, caller *frame, args []Value) Value
}

func (in *Interp) callSSA(caller *frame, fn *ssa.Function, args []Value, env []Value) Value {
	depth := 0
	if caller != nil {
		depth = caller.depth + 1
	}
	if depth > in.cfg.MaxDepth {
		in.abort(abUnwind, fmt.Sprintf("call depth %d exceeded in %s", in.cfg.MaxDepth, fn))
	}
	if len(in.cfg.Noops) > 0 && in.cfg.Noops[fn.String()] {
		in.stubsSeen["noop:"+fn.String()]++
		res := fn.Signature.Results()
		if res.Len() == 0 {
			return nil
		}
		return in.zero(res)
	}
	if len(in.cfg.UFs) > 0 && in.cfg.UFs[fn.String()] {
		in.stubsSeen["UF:"+fn.String()]++
		return in.callUF(fn, args)
	}
	// intrinsics
	if ix := in.lookupIntrinsic(fn); ix != nil {
		in.stubsSeen[fn.String()]++
		saved := in.curFrame
		fr := &frame{in: in, caller: caller, fn: fn, depth: depth}
		in.curFrame = fr
		r := ix(in, fr, args)
		in.curFrame = saved
		if r != Value(fallThrough) {
			return r
		}
		delete(in.stubsSeen, fn.String())
	}
	if fn.Blocks == nil {
		in.unsupported("no body for " + fn.String())
	}
	if fn.Pkg != nil {
		if !in.shared.allowPkg(fn.Pkg.Pkg.Path()) {
			in.unsupported("call into un-modelled package: " + fn.String())
		}
		in.ensureInit(fn.Pkg)
	} else if o := fn.Origin(); o != nil && o.Pkg != nil {
		if !in.shared.allowPkg(o.Pkg.Pkg.Path()) {
			in.unsupported("call into un-modelled package: " + fn.String())
		}
		in.ensureInit(o.Pkg)
	}
	if fn.TypeParams().Len() > 0 && len(fn.TypeArgs()) == 0 {
		in.unsupported("uninstantiated generic " + fn.String())
	}
	in.funcsSeen[fn]++
	fi := in.info(fn)
	fr := &frame{in: in, caller: caller, fn: fn, info: fi, env: make([]Value, fi.n), depth: depth}
	for i, p := range fn.Params {
		fr.env[fi.index[p]] = args[i]
	}
	for i, fv := range fn.FreeVars {
		fr.env[fi.index[fv]] = env[i]
	}
	fr.block = fn.Blocks[0]
	saved := in.curFrame
	in.curFrame = fr
	for fr.block != nil {
		in.runFrame(fr)
	}
	in.curFrame = saved
	return fr.result
}

func (in *Interp) runDefers(fr *frame) {
	for d := fr.defers; d != nil; d = d.tail {
		in.runDefer(fr, d)
	}
	fr.defers = nil
	if fr.panicking {
		panic(fr.panicVal)
	}
}

func (in *Interp) runDefer(fr *frame, d *deferred) {
	var ok bool
	defer func() {
		if !ok {
			r := recover()
			if _, isAbort := r.(abortPath); isAbort {
				panic(r)
			}
			if _, isT := r.(targetPanic); !isT {
				panic(r) // engine error
			}
			fr.panicking = true
			fr.panicVal = r
		}
	}()
	in.curFrame = fr
	in.callFunction(fr, d.fn, d.args)
	ok = true
}

func (in *Interp) runFrame(fr *frame) {
	defer func() {
		if fr.block == nil {
			return // normal return
		}
		r := recover()
		if _, isT := r.(targetPanic); !isT {
			panic(r) // abortPath, simulated process death or engine error: propagate without running target defers
		}
		fr.panicking = true
		fr.panicVal = r
		in.curFrame = fr
		in.runDefers(fr)
		// recovered
		fr.block = fr.fn.Recover
		if fr.block == nil {
			// function without named results: return zero values
			fr.result = in.zero(fr.fn.Signature.Results())
			if fr.fn.Signature.Results().Len() == 0 {
				fr.result = nil
			}
		}
	}()
	for {
		in.executePhis(fr)
		for _, instr := range fr.block.Instrs {
			if _, ok := instr.(*ssa.Phi); ok {
				continue
			}
			fr.curInstr = instr
			in.stats.instrs++
			if in.path != nil {
				in.path.steps++
				if in.path.steps > in.cfg.MaxSteps {
					in.abort(abBudget, fmt.Sprintf("more than %d steps on one path", in.cfg.MaxSteps))
				}
			}
			var k int
			if in.initDepth > 0 {
				k = in.visitTolerant(fr, instr)
			} else {
				k = in.visitInstr(fr, instr)
			}
			if k == kReturn {
				return
			}
			if k == kJump {
				break
			}
		}
	}
}

const (
	kNext = iota
	kReturn
	kJump
)

// visitTolerant executes instr; an unsupported operation poisons its result.
func (in *Interp) visitTolerant(fr *frame, instr ssa.Instruction) (k int) {
	defer func() {
		if r := recover(); r != nil {
			if a, ok := r.(abortPath); ok && a.kind == abUnsupported {
				if v, ok := instr.(ssa.Value); ok {
					fr.set(v, &Poison{a.msg})
					k = kNext
					return
				}
				switch instr.(type) {
				case *ssa.Store, *ssa.MapUpdate:
					k = kNext
					return
				}
			}
			// use of a poisoned value shows up as a Go type assertion failure
			if _, ok := r.(runtime.Error); ok {
				if v, ok := instr.(ssa.Value); ok {
					fr.set(v, &Poison{fmt.Sprint(r)})
					k = kNext
					return
				}
				switch instr.(type) {
				case *ssa.Store, *ssa.MapUpdate:
					k = kNext
					return
				}
			}
			panic(r)
		}
	}()
	return in.visitInstr(fr, instr)
}

func (in *Interp) executePhis(fr *frame) {
	instrs := fr.block.Instrs
	if fr.phisDone {
		fr.phisDone = false
		return
	}
	if _, ok := instrs[0].(*ssa.Phi); !ok {
		return
	}
	predIndex := -1
	for i, p := range fr.block.Preds {
		if p == fr.prev {
			predIndex = i
			break
		}
	}
	var tmp [8]Value
	temps := tmp[:0]
	for _, instr := range instrs {
		phi, ok := instr.(*ssa.Phi)
		if !ok {
			break
		}
		temps = append(temps, fr.get(phi.Edges[predIndex]))
	}
	for i := range temps {
		fr.set(instrs[i].(*ssa.Phi), temps[i])
	}
}

func (in *Interp) load(t types.Type, addr Value) Value {
	switch p := addr.(type) {
	case *Value:
		if p == nil {
			in.targetPanic("runtime error: invalid memory address or nil pointer dereference")
		}
		return copyVal(*p)
	case *SymPtr:
		n := len(p.slots)
		acc := (*p.slots[n-1]).(*Term)
		for i := n - 2; i >= 0; i-- {
			acc = in.tt.Ite(in.tt.Eq(p.idx, in.tt.BV(64, uint64(i))), (*p.slots[i]).(*Term), acc)
		}
		return acc
	case *Poison:
		in.unsupported("load through poisoned pointer: " + p.why)
	}
	in.unsupported(fmt.Sprintf("load through %T", addr))
	return nil
}

func (in *Interp) store(addr Value, v Value) {
	switch p := addr.(type) {
	case *Value:
		if p == nil {
			in.targetPanic("runtime error: invalid memory address or nil pointer dereference")
		}
		if in.spec != nil {
			m, ok := in.mergeVal(in.spec.cond, v, *p)
			if !ok {
				panic(specAbort{})
			}
			v = m
		}
		in.storeInto(p, v)
		return
	case *SymPtr:
		nv := v.(*Term)
		if in.spec != nil {
			cur := in.load(nil, p).(*Term)
			nv = in.tt.Ite(in.spec.cond, nv, cur)
		}
		for i, s := range p.slots {
			old := (*s).(*Term)
			in.setSlot(s, in.tt.Ite(in.tt.Eq(p.idx, in.tt.BV(64, uint64(i))), nv, old))
		}
		return
	}
	in.unsupported(fmt.Sprintf("store through %T", addr))
}

func (in *Interp) visitInstr(fr *frame, instr ssa.Instruction) int {
	switch instr := instr.(type) {
	case *ssa.DebugRef:
	case *ssa.UnOp:
		fr.set(instr, in.unop(fr, instr, fr.get(instr.X)))
	case *ssa.BinOp:
		fr.set(instr, in.binop(instr.Op, instr.X.Type(), instr.Y.Type(), fr.get(instr.X), fr.get(instr.Y)))
	case *ssa.Call:
		fn, args := in.prepareCall(fr, &instr.Call)
		var r Value
		if b, ok := fn.(*ssa.Builtin); ok {
			r = in.callBuiltin(fr, b, args, &instr.Call)
		} else {
			r = in.callFunction(fr, fn, args)
		}
		in.curFrame = fr
		fr.set(instr, r)
	case *ssa.ChangeInterface:
		fr.set(instr, fr.get(instr.X))
	case *ssa.ChangeType:
		fr.set(instr, fr.get(instr.X))
	case *ssa.Convert:
		fr.set(instr, in.conv(instr.Type(), instr.X.Type(), fr.get(instr.X)))
	case *ssa.SliceToArrayPointer:
		in.unsupported("SliceToArrayPointer")
	case *ssa.MakeInterface:
		fr.set(instr, Iface{t: instr.X.Type(), v: fr.get(instr.X)})
	case *ssa.Extract:
		fr.set(instr, fr.get(instr.Tuple).(Tuple)[instr.Index])
	case *ssa.Slice:
		fr.set(instr, in.sliceOp(instr, fr.get(instr.X), fr.get(instr.Low), fr.get(instr.High), fr.get(instr.Max)))
	case *ssa.Return:
		switch len(instr.Results) {
		case 0:
			fr.result = nil
		case 1:
			fr.result = fr.get(instr.Results[0])
		default:
			res := make(Tuple, len(instr.Results))
			for i, r := range instr.Results {
				res[i] = fr.get(r)
			}
			fr.result = res
		}
		fr.block = nil
		return kReturn
	case *ssa.RunDefers:
		in.runDefers(fr)
		in.curFrame = fr
	case *ssa.Panic:
		panic(targetPanic{fr.get(instr.X)})
	case *ssa.Send:
		in.chanSend(fr.get(instr.Chan).(*Chan), fr.get(instr.X))
	case *ssa.Store:
		in.store(fr.get(instr.Addr), fr.get(instr.Val))
	case *ssa.If:
		c := fr.get(instr.Cond).(*Term)
		var take bool
		if c.op == OpConst {
			take = c.val == 1
		} else {
			if _, known := in.knownVal(c); !known && in.path != nil && in.initDepth == 0 && in.trySpeculate(fr, instr, c) {
				return kJump
			}
			if fr.symCount == nil {
				fr.symCount = map[ssa.Instruction]int{}
			}
			fr.symCount[instr]++
			if fr.symCount[instr] > in.cfg.Unwind {
				// only a bound violation if the loop can actually continue
				if _, known := in.knownVal(c); !known {
					in.abort(abUnwind, fmt.Sprintf("unwinding bound %d reached at %s", in.cfg.Unwind, in.prog.Fset.Position(instr.Pos())))
				}
			}
			take = in.branch(c)
		}
		succ := 1
		if take {
			succ = 0
		}
		fr.prev, fr.block = fr.block, fr.block.Succs[succ]
		return kJump
	case *ssa.Jump:
		fr.prev, fr.block = fr.block, fr.block.Succs[0]
		return kJump
	case *ssa.Defer:
		fn, args := in.prepareCall(fr, &instr.Call)
		if instr.DeferStack != nil {
			in.unsupported("defer with explicit stack")
		}
		fr.defers = &deferred{fn: fn, args: args, tail: fr.defers}
	case *ssa.Go:
		fn, args := in.prepareCall(fr, &instr.Call)
		in.goStmt(fr, fn, args)
	case *ssa.MakeChan:
		n := int(in.concretize(in.toInt64(fr.get(instr.Size), instr.Size.Type()), "chan size"))
		fr.set(instr, &Chan{cap: n})
	case *ssa.Alloc:
		p := new(Value)
		*p = in.zero(deref(instr.Type()))
		fr.set(instr, p)
	case *ssa.MakeSlice:
		fr.set(instr, in.makeSlice(instr, fr.get(instr.Len), fr.get(instr.Cap)))
	case *ssa.MakeMap:
		fr.set(instr, in.newMap(instr.Type().Underlying().(*types.Map).Key()))
	case *ssa.Range:
		fr.set(instr, in.rangeIter(fr.get(instr.X), instr.X.Type()))
	case *ssa.Next:
		fr.set(instr, fr.get(instr.Iter).(iterator).next(in))
	case *ssa.FieldAddr:
		x := fr.get(instr.X)
		p, ok := x.(*Value)
		if !ok {
			in.unsupported(fmt.Sprintf("FieldAddr on %T", x))
		}
		if p == nil {
			in.targetPanic("runtime error: invalid memory address or nil pointer dereference")
		}
		s, ok := (*p).(Struct)
		if !ok {
			in.unsupported(fmt.Sprintf("FieldAddr: pointee is %T", *p))
		}
		fr.set(instr, &s[instr.Field])
	case *ssa.Field:
		fr.set(instr, copyVal(fr.get(instr.X).(Struct)[instr.Field]))
	case *ssa.IndexAddr:
		fr.set(instr, in.indexAddr(instr, fr.get(instr.X), fr.get(instr.Index)))
	case *ssa.Index:
		fr.set(instr, in.indexOp(instr, fr.get(instr.X), fr.get(instr.Index)))
	case *ssa.Lookup:
		fr.set(instr, in.lookup(instr, fr.get(instr.X), fr.get(instr.Index)))
	case *ssa.MapUpdate:
		m := fr.get(instr.Map).(*Map)
		in.mapInsert(m, copyVal(fr.get(instr.Key)), copyVal(fr.get(instr.Value)))
	case *ssa.TypeAssert:
		fr.set(instr, in.typeAssert(instr, fr.get(instr.X)))
	case *ssa.MakeClosure:
		var bindings []Value
		for _, b := range instr.Bindings {
			bindings = append(bindings, fr.get(b))
		}
		fr.set(instr, &Closure{instr.Fn.(*ssa.Function), bindings})
	case *ssa.Select:
		fr.set(instr, in.selectOp(fr, instr))
	case *ssa.MultiConvert:
		in.unsupported("MultiConvert")
	default:
		in.unsupported(fmt.Sprintf("instruction %T", instr))
	}
	return kNext
}

func (in *Interp) prepareCall(fr *frame, call *ssa.CallCommon) (fn Value, args []Value) {
	v := fr.get(call.Value)
	if call.Method == nil {
		fn = v
	} else {
		recv, ok := v.(Iface)
		if !ok {
			in.unsupported(fmt.Sprintf("invoke on %T", v))
		}
		if recv.t == nil {
			in.targetPanic("runtime error: invalid memory address or nil pointer dereference (method on nil interface)")
		}
		if nf := in.nativeMethod(recv, call.Method); nf != nil {
			fn = nf
		} else {
			f := in.prog.LookupMethod(recv.t, call.Method.Pkg(), call.Method.Name())
			if f == nil {
				in.unsupported(fmt.Sprintf("no method %s on %s", call.Method.Name(), recv.t))
			}
			fn = f
		}
		args = append(args, recv.v)
	}
	for _, a := range call.Args {
		args = append(args, copyVal(fr.get(a)))
	}
	return
}

func (in *Interp) toInt64(v Value, t types.Type) *Term {
	x := v.(*Term)
	if x.w == 64 {
		return x
	}
	if isSigned(t) {
		return in.tt.Sext(x, 64)
	}
	return in.tt.Zext(x, 64)
}

func (in *Interp) typeAssert(instr *ssa.TypeAssert, xv Value) Value {
	x, ok := xv.(Iface)
	if !ok {
		in.unsupported(fmt.Sprintf("type assert on %T", xv))
	}
	var v Value
	okk := false
	if x.t != nil {
		if it, isI := instr.AssertedType.Underlying().(*types.Interface); isI {
			if in.implements(x.t, it) {
				v = x
				okk = true
			}
		} else if types.Identical(x.t, instr.AssertedType) {
			v = copyVal(x.v)
			okk = true
		}
	}
	if !okk {
		if !instr.CommaOk {
			from := "nil"
			if x.t != nil {
				from = x.t.String()
			}
			in.targetPanic(fmt.Sprintf("interface conversion: interface is %s, not %s", from, instr.AssertedType))
		}
		v = in.zero(instr.AssertedType)
	}
	if instr.CommaOk {
		return Tuple{v, in.tt.Bool(okk)}
	}
	return v
}

func (in *Interp) implements(t types.Type, it *types.Interface) bool {
	if it.NumMethods() == 0 {
		return true
	}
	if types.Implements(t, it) {
		return true
	}
	return false
}

func (in *Interp) goStmt(fr *frame, fn Value, args []Value) {
	// no scheduler: the goroutine is recorded and never run
	in.stats.instrs++
}

func posString(fset *token.FileSet, p token.Pos) string {
	s := fset.Position(p).String()
	if i := strings.LastIndex(s, "/"); i >= 0 {
		s = s[i+1:]
	}
	return s
}

// callUF summarises a pure function of scalars and byte sequences as an
// uninterpreted function of its argument terms.
func (in *Interp) callUF(fn *ssa.Function, args []Value) Value {
	var terms []*Term
	shape := ""
	for _, a := range args {
		switch x := a.(type) {
		case *Term:
			terms = append(terms, x)
			shape += fmt.Sprintf("_s%d", x.w)
		case Str:
			terms = append(terms, x.b...)
			shape += fmt.Sprintf("_b%d", len(x.b))
		case Slice:
			var bs []*Term
			if x.arr != nil {
				bs = in.bytesOfSlice(x)
			}
			terms = append(terms, bs...)
			shape += fmt.Sprintf("_b%d", len(bs))
		default:
			in.unsupported(fmt.Sprintf("UF summary of %s: argument %T", fn, a))
		}
	}
	res := fn.Signature.Results()
	if res.Len() != 1 {
		in.unsupported("UF summary needs exactly one scalar result: " + fn.String())
	}
	w := typeWidth(res.At(0).Type())
	if w < 0 {
		in.unsupported("UF summary needs a scalar result: " + fn.String())
	}
	name := "uf_" + strings.Map(func(r rune) rune {
		if (r >= 'a' && r <= 'z') || (r >= 'A' && r <= 'Z') || (r >= '0' && r <= '9') {
			return r
		}
		return '_'
	}, fn.String()) + shape
	if len(terms) == 0 {
		return in.tt.App(w, name)
	}
	return in.tt.App(w, name, terms...)
}
