package main

import (
	"fmt"
	"go/token"
	"go/types"
	"math"

	"golang.org/x/tools/go/ssa"
)

// lazyDef is the deferred defining constraint of an engine-internal variable.
type lazyDef struct {
	def       *Term
	src       *Term
	srcSigned bool
	widened   bool // float32 -> float64
	active    bool
}

// ---- floating point helpers ------------------------------------------------

func fpSort(w int) string {
	if w == 32 {
		return "(_ to_fp 8 24)"
	}
	return "(_ to_fp 11 53)"
}

func fpConstFloat(t *Term) float64 {
	if t.w == 32 {
		return float64(math.Float32frombits(uint32(t.val)))
	}
	return math.Float64frombits(t.val)
}

func (in *Interp) fpConst(w int, f float64) *Term {
	if w == 32 {
		return in.tt.BV(32, uint64(math.Float32bits(float32(f))))
	}
	return in.tt.BV(64, math.Float64bits(f))
}

// fpCmp builds a floating point predicate over bit patterns.
func (in *Interp) fpCmp(op string, a, b *Term) *Term {
	if a.op == OpConst && b.op == OpConst {
		x, y := fpConstFloat(a), fpConstFloat(b)
		switch op {
		case "fp.eq":
			return in.tt.Bool(x == y)
		case "fp.lt":
			return in.tt.Bool(x < y)
		case "fp.leq":
			return in.tt.Bool(x <= y)
		case "fp.gt":
			return in.tt.Bool(x > y)
		case "fp.geq":
			return in.tt.Bool(x >= y)
		}
	}
	if op == "fp.eq" {
		// pure bit-vector form: neither is NaN and (same bits or both zeros)
		tt := in.tt
		abs := mask(a.w) >> 1
		za := tt.Eq(tt.Bin(OpBAnd, a, tt.BV(a.w, abs)), tt.BV(a.w, 0))
		zb := tt.Eq(tt.Bin(OpBAnd, b, tt.BV(b.w, abs)), tt.BV(b.w, 0))
		return tt.And(tt.And(tt.Not(in.fpIsNaN(a)), tt.Not(in.fpIsNaN(b))), tt.Or(tt.Eq(a, b), tt.And(za, zb)))
	}
	// ordered comparisons in pure bit-vector form: map the sign-magnitude
	// pattern to an unsigned key that is monotone in the float order
	tt := in.tt
	w := a.w
	sign := uint64(1) << uint(w-1)
	key := func(x *Term) *Term {
		neg := tt.Not(tt.Eq(tt.Bin(OpBAnd, x, tt.BV(w, sign)), tt.BV(w, 0)))
		return tt.Ite(neg, tt.Un(OpBNot, x), tt.Bin(OpBOr, x, tt.BV(w, sign)))
	}
	abs := mask(w) >> 1
	za := tt.Eq(tt.Bin(OpBAnd, a, tt.BV(w, abs)), tt.BV(w, 0))
	zb := tt.Eq(tt.Bin(OpBAnd, b, tt.BV(w, abs)), tt.BV(w, 0))
	ord := tt.And(tt.Not(in.fpIsNaN(a)), tt.Not(in.fpIsNaN(b)))
	eq := tt.Or(tt.Eq(a, b), tt.And(za, zb))
	lt := tt.And(tt.Not(eq), tt.Cmp(OpUlt, key(a), key(b)))
	gt := tt.And(tt.Not(eq), tt.Cmp(OpUlt, key(b), key(a)))
	switch op {
	case "fp.lt":
		return tt.And(ord, lt)
	case "fp.leq":
		return tt.And(ord, tt.Or(lt, eq))
	case "fp.gt":
		return tt.And(ord, gt)
	case "fp.geq":
		return tt.And(ord, tt.Or(gt, eq))
	}
	c := fpSort(a.w)
	return in.tt.Raw(0, "("+op+" ("+c+" %0) ("+c+" %1))", a, b)
}

func (in *Interp) fpIsNaN(a *Term) *Term {
	if a.op == OpConst {
		return in.tt.Bool(math.IsNaN(fpConstFloat(a)))
	}
	// exponent all ones and a non-zero mantissa
	tt := in.tt
	var expMask, manMask uint64
	if a.w == 32 {
		expMask, manMask = 0x7F800000, 0x007FFFFF
	} else {
		expMask, manMask = 0x7FF0000000000000, 0x000FFFFFFFFFFFFF
	}
	e := tt.Eq(tt.mk(OpBAnd, a.w, 0, "", []*Term{a, tt.BV(a.w, expMask)}), tt.BV(a.w, expMask))
	m := tt.Not(tt.Eq(tt.mk(OpBAnd, a.w, 0, "", []*Term{a, tt.BV(a.w, manMask)}), tt.BV(a.w, 0)))
	return tt.And(e, m)
}

// fpArith builds a floating point arithmetic result as fresh bits tied to
// the operation by a constraint.
func (in *Interp) fpArith(op token.Token, a, b *Term) *Term {
	if a.op == OpConst && b.op == OpConst {
		x, y := fpConstFloat(a), fpConstFloat(b)
		var r float64
		switch op {
		case token.ADD:
			r = x + y
		case token.SUB:
			r = x - y
		case token.MUL:
			r = x * y
		case token.QUO:
			r = x / y
		}
		if a.w == 32 {
			var r32 float32
			x32, y32 := math.Float32frombits(uint32(a.val)), math.Float32frombits(uint32(b.val))
			switch op {
			case token.ADD:
				r32 = x32 + y32
			case token.SUB:
				r32 = x32 - y32
			case token.MUL:
				r32 = x32 * y32
			case token.QUO:
				r32 = x32 / y32
			}
			return in.tt.BV(32, uint64(math.Float32bits(r32)))
		}
		return in.fpConst(a.w, r)
	}
	name := map[token.Token]string{token.ADD: "fp.add", token.SUB: "fp.sub", token.MUL: "fp.mul", token.QUO: "fp.div"}[op]
	r := in.freshVar(a.w)
	c := fpSort(a.w)
	in.addPC(in.tt.Raw(0, "(= ("+c+" %0) ("+name+" RNE ("+c+" %1) ("+c+" %2)))", r, a, b))
	return r
}

// ---- unary / binary ---------------------------------------------------------

func (in *Interp) unop(fr *frame, instr *ssa.UnOp, x Value) Value {
	switch instr.Op {
	case token.MUL:
		return in.load(instr.Type(), x)
	case token.NOT:
		return in.tt.Not(x.(*Term))
	case token.SUB:
		t := x.(*Term)
		if isFloat(instr.X.Type()) {
			return in.tt.Bin(OpBXor, t, in.tt.BV(t.w, uint64(1)<<uint(t.w-1)))
		}
		return in.tt.Un(OpNeg, t)
	case token.XOR:
		return in.tt.Un(OpBNot, x.(*Term))
	case token.ARROW:
		v, ok := in.chanRecv(x.(*Chan), instr.X.Type())
		if instr.CommaOk {
			return Tuple{v, in.tt.Bool(ok)}
		}
		return v
	}
	in.unsupported("unop " + instr.Op.String())
	return nil
}

func (in *Interp) strLess(a, b Str, orEq bool) *Term {
	// lexicographic on bytes
	tt := in.tt
	n := len(a.b)
	if len(b.b) < n {
		n = len(b.b)
	}
	// result when all common bytes equal
	var tail *Term
	if orEq {
		tail = tt.Bool(len(a.b) <= len(b.b))
	} else {
		tail = tt.Bool(len(a.b) < len(b.b))
	}
	res := tail
	for i := n - 1; i >= 0; i-- {
		lt := tt.Cmp(OpUlt, a.b[i], b.b[i])
		eq := tt.Eq(a.b[i], b.b[i])
		res = tt.Ite(lt, tt.T, tt.Ite(eq, res, tt.F))
	}
	return res
}

func (in *Interp) binop(op token.Token, xt, yt types.Type, x, y Value) Value {
	tt := in.tt
	switch op {
	case token.EQL:
		return in.eqVal(xt, x, y)
	case token.NEQ:
		return tt.Not(in.eqVal(xt, x, y))
	}
	if xs, ok := x.(Str); ok {
		ys := y.(Str)
		switch op {
		case token.ADD:
			b := make([]*Term, 0, len(xs.b)+len(ys.b))
			b = append(b, xs.b...)
			b = append(b, ys.b...)
			return Str{b: b}
		case token.LSS:
			return in.strLess(xs, ys, false)
		case token.LEQ:
			return in.strLess(xs, ys, true)
		case token.GTR:
			return in.strLess(ys, xs, false)
		case token.GEQ:
			return in.strLess(ys, xs, true)
		}
		in.unsupported("string binop " + op.String())
	}
	a, okA := x.(*Term)
	b, okB := y.(*Term)
	if !okA || !okB {
		in.unsupported(fmt.Sprintf("binop %s on %T,%T", op, x, y))
	}
	if isFloat(xt) {
		switch op {
		case token.ADD, token.SUB, token.MUL, token.QUO:
			return in.fpArith(op, a, b)
		case token.LSS:
			return in.fpCmp("fp.lt", a, b)
		case token.LEQ:
			return in.fpCmp("fp.leq", a, b)
		case token.GTR:
			return in.fpCmp("fp.gt", a, b)
		case token.GEQ:
			return in.fpCmp("fp.geq", a, b)
		}
		in.unsupported("float binop " + op.String())
	}
	signed := isSigned(xt)
	switch op {
	case token.ADD:
		return tt.Bin(OpAdd, a, b)
	case token.SUB:
		return tt.Bin(OpSub, a, b)
	case token.MUL:
		return tt.Bin(OpMul, a, b)
	case token.QUO, token.REM:
		if in.branch(tt.Eq(b, tt.BV(b.w, 0))) {
			in.targetPanic("runtime error: integer divide by zero")
		}
		if signed {
			// non-negative dividend and positive constant divisor: unsigned ops simplify better
			if op == token.QUO {
				return tt.Bin(OpSDiv, a, b)
			}
			return tt.Bin(OpSRem, a, b)
		}
		if op == token.QUO {
			return tt.Bin(OpUDiv, a, b)
		}
		return tt.Bin(OpURem, a, b)
	case token.AND:
		return tt.Bin(OpBAnd, a, b)
	case token.OR:
		return tt.Bin(OpBOr, a, b)
	case token.XOR:
		return tt.Bin(OpBXor, a, b)
	case token.AND_NOT:
		return tt.Bin(OpBAnd, a, tt.Un(OpBNot, b))
	case token.SHL, token.SHR:
		// shift count: unsigned, or signed and must be non-negative
		if isSigned(yt) {
			neg := tt.Cmp(OpSlt, b, tt.BV(b.w, 0))
			if in.branch(neg) {
				in.targetPanic("runtime error: negative shift amount")
			}
		}
		w := a.w
		var cnt *Term
		var big *Term
		if b.w > w {
			big = tt.Not(tt.Cmp(OpUlt, b, tt.BV(b.w, uint64(w))))
			cnt = tt.Extract(b, w-1, 0)
		} else {
			cnt = tt.Zext(b, w)
			big = tt.Not(tt.Cmp(OpUlt, cnt, tt.BV(w, uint64(w))))
		}
		var sh *Term
		switch {
		case op == token.SHL:
			sh = tt.Bin(OpShl, a, cnt)
		case signed:
			sh = tt.Bin(OpAshr, a, cnt)
		default:
			sh = tt.Bin(OpLshr, a, cnt)
		}
		if big.IsFalse() {
			return sh
		}
		var over *Term
		if op == token.SHR && signed {
			over = tt.Bin(OpAshr, a, tt.BV(w, uint64(w-1)))
		} else {
			over = tt.BV(w, 0)
		}
		return tt.Ite(big, over, sh)
	case token.LSS:
		if signed {
			return tt.Cmp(OpSlt, a, b)
		}
		return tt.Cmp(OpUlt, a, b)
	case token.LEQ:
		if signed {
			return tt.Cmp(OpSle, a, b)
		}
		return tt.Cmp(OpUle, a, b)
	case token.GTR:
		if signed {
			return tt.Cmp(OpSlt, b, a)
		}
		return tt.Cmp(OpUlt, b, a)
	case token.GEQ:
		if signed {
			return tt.Cmp(OpSle, b, a)
		}
		return tt.Cmp(OpUle, b, a)
	}
	in.unsupported("binop " + op.String())
	return nil
}

// ---- conversions ------------------------------------------------------------

func (in *Interp) conv(dst, src types.Type, x Value) Value {
	tt := in.tt
	du, su := dst.Underlying(), src.Underlying()
	switch d := du.(type) {
	case *types.Basic:
		if d.Kind() == types.UnsafePointer {
			in.unsupported("conversion to unsafe.Pointer")
		}
		if d.Info()&types.IsString != 0 {
			switch s := su.(type) {
			case *types.Basic:
				if s.Info()&types.IsString != 0 {
					return x
				}
				if s.Info()&types.IsInteger != 0 {
					t := x.(*Term)
					if t.op != OpConst {
						// a symbolic code point below 0x80 is its own one-byte encoding
						lim := tt.BV(t.w, 0x80)
						if t.w < 8 || !in.branch(tt.Cmp(OpUlt, t, lim)) {
							in.unsupported("string(symbolic rune >= 0x80)")
						}
						return Str{b: []*Term{tt.Extract(t, 7, 0)}}
					}
					return concStr(tt, string(rune(t.sval())))
				}
			case *types.Slice:
				sl := x.(Slice)
				eb, _ := s.Elem().Underlying().(*types.Basic)
				if eb != nil && eb.Kind() == types.Uint8 {
					if sl.arr == nil {
						return Str{}
					}
					return Str{b: in.bytesOfSlice(sl)}
				}
				if eb != nil && eb.Kind() == types.Int32 {
					var rs []rune
					for _, e := range in.sliceElems(sl) {
						t := e.(*Term)
						if t.op != OpConst {
							in.unsupported("string([]rune) with symbolic runes")
						}
						rs = append(rs, rune(t.sval()))
					}
					return concStr(tt, string(rs))
				}
			}
			in.unsupported(fmt.Sprintf("conversion %s -> string", src))
		}
		w := basicWidth(d.Kind())
		t, ok := x.(*Term)
		if !ok {
			in.unsupported(fmt.Sprintf("conversion of %T to %s", x, dst))
		}
		sb, _ := su.(*types.Basic)
		if sb == nil {
			in.unsupported(fmt.Sprintf("conversion %s -> %s", src, dst))
		}
		srcFloat := sb.Info()&types.IsFloat != 0
		dstFloat := d.Info()&types.IsFloat != 0
		switch {
		case !srcFloat && !dstFloat:
			if w == t.w {
				return t
			}
			if w < t.w {
				return tt.Extract(t, w-1, 0)
			}
			if isSigned(src) {
				return tt.Sext(t, w)
			}
			return tt.Zext(t, w)
		case srcFloat && dstFloat:
			if w == t.w {
				return t
			}
			if t.op == OpConst {
				return in.fpConst(w, fpConstFloat(t))
			}
			// widening then narrowing gives the float32 back exactly
			if w == 32 {
				if ld := in.path.lazy[t]; ld != nil && ld.widened {
					return ld.src
				}
			}
			r := in.freshVar(w)
			def := tt.Raw(0, "(= ("+fpSort(w)+" %0) ("+fpSort(w)+" RNE ("+fpSort(t.w)+" %1)))", r, t)
			if w == 64 {
				in.path.lazy[r] = &lazyDef{def: def, src: t, widened: true}
				return r
			}
			in.addPC(def)
			return r
		case !srcFloat && dstFloat:
			if t.op == OpConst {
				if isSigned(src) {
					return in.fpConst(w, float64(t.sval()))
				}
				return in.fpConst(w, float64(t.val))
			}
			// The defining constraint of the result is lazy: it is asserted
			// only if the result ever reaches the solver. The common round
			// trip int -> float64 -> int of a value within +-2^53 is folded
			// in the inverse conversion below without any FP reasoning.
			r := in.freshVar(w)
			var def *Term
			if isSigned(src) {
				def = tt.Raw(0, "(= ("+fpSort(w)+" %0) ("+fpSort(w)+" RNE %1))", r, t)
			} else {
				uns := "(_ to_fp_unsigned 11 53)"
				if w == 32 {
					uns = "(_ to_fp_unsigned 8 24)"
				}
				def = tt.Raw(0, "(= ("+fpSort(w)+" %0) ("+uns+" RNE %1))", r, t)
			}
			in.path.lazy[r] = &lazyDef{def: def, src: t, srcSigned: isSigned(src)}
			return r
		case srcFloat && !dstFloat:
			if t.op == OpConst {
				f := fpConstFloat(t)
				if !math.IsNaN(f) && !math.IsInf(f, 0) {
					tr := math.Trunc(f)
					if isSigned(dst) {
						lo, hi := -math.Ldexp(1, w-1), math.Ldexp(1, w-1)
						if tr >= lo && tr < hi {
							return tt.BV(w, uint64(int64(tr)))
						}
					} else if tr >= 0 && tr < math.Ldexp(1, w) {
						return tt.BV(w, uint64(tr))
					}
				}
				// implementation-defined result: arbitrary
				return in.freshVar(w)
			}
			// float64(int) converted back: exact when the integer fits 53 bits
			if ld := in.path.lazy[t]; ld != nil && !ld.widened && t.w == 64 && ld.src.w <= w {
				x := ld.src
				var fits *Term
				if ld.srcSigned {
					x64 := tt.Sext(x, 64)
					lim := tt.BV(64, 1<<53)
					fits = tt.And(tt.Cmp(OpSle, tt.BV(64, ^uint64(1<<53)+1), x64), tt.Cmp(OpSle, x64, lim))
				} else {
					fits = tt.Cmp(OpUle, tt.Zext(x, 64), tt.BV(64, 1<<53))
				}
				// signedness of the target must be able to hold the value
				sameSign := ld.srcSigned == isSigned(dst) || ld.srcSigned && !isSigned(dst) && false
				if sameSign && in.branch(fits) {
					if x.w == w {
						return x
					}
					if ld.srcSigned {
						return tt.Sext(x, w)
					}
					return tt.Zext(x, w)
				}
			}
			// in range => truncation; out of range / NaN => arbitrary value
			r := in.freshVar(w)
			c := fpSort(t.w)
			var conv, lo, hi string
			sfx := "11 53"
			if t.w == 32 {
				sfx = "8 24"
			}
			if isSigned(dst) {
				conv = fmt.Sprintf("((_ fp.to_sbv %d) RTZ (%s %%1))", w, c)
				lo = fmt.Sprintf("((_ to_fp %s) RTZ (- %s))", sfx, pow2Real(w-1))
				hi = fmt.Sprintf("((_ to_fp %s) RTZ %s)", sfx, pow2Real(w-1))
				in.addPC(tt.Raw(0, "(=> (and (fp.geq ("+c+" %1) "+lo+") (fp.lt ("+c+" %1) "+hi+")) (= %0 "+conv+"))", r, t))
			} else {
				conv = fmt.Sprintf("((_ fp.to_ubv %d) RTZ (%s %%1))", w, c)
				hi = fmt.Sprintf("((_ to_fp %s) RTZ %s)", sfx, pow2Real(w))
				in.addPC(tt.Raw(0, "(=> (and (fp.gt ("+c+" %1) ((_ to_fp "+sfx+") RTZ (- 1.0))) (fp.lt ("+c+" %1) "+hi+")) (= %0 "+conv+"))", r, t))
			}
			return r
		}
	case *types.Slice:
		// string -> []byte / []rune
		if sb, ok := su.(*types.Basic); ok && sb.Info()&types.IsString != 0 {
			s := x.(Str)
			eb, _ := d.Elem().Underlying().(*types.Basic)
			if eb != nil && eb.Kind() == types.Uint8 {
				return in.sliceOfBytes(append([]*Term{}, s.b...))
			}
			if eb != nil && eb.Kind() == types.Int32 {
				cs, ok := s.conc()
				if !ok {
					in.unsupported("[]rune(symbolic string)")
				}
				var vs []Value
				for _, r := range cs {
					vs = append(vs, tt.BV(32, uint64(r)))
				}
				return in.sliceOfValues(vs, func() Value { return tt.BV(32, 0) })
			}
		}
		return x
	case *types.Pointer:
		if sb, ok := su.(*types.Basic); ok && sb.Kind() == types.UnsafePointer {
			in.unsupported("conversion from unsafe.Pointer")
		}
		return x
	}
	return x
}

func pow2Real(k int) string {
	return fmt.Sprintf("%.1f", math.Ldexp(1, k))
}

// ---- slices, arrays, strings -------------------------------------------------

func (in *Interp) makeSlice(instr *ssa.MakeSlice, lenV, capV Value) Value {
	elem := instr.Type().Underlying().(*types.Slice).Elem()
	ln := in.toInt64(lenV, instr.Len.Type())
	cp := in.toInt64(capV, instr.Cap.Type())
	tt := in.tt
	if in.branch(tt.Cmp(OpSlt, ln, in.zero64)) {
		in.targetPanic("runtime error: makeslice: len out of range")
	}
	if ln != cp && in.branch(tt.Cmp(OpSlt, cp, ln)) {
		in.targetPanic("runtime error: makeslice: cap out of range")
	}
	if cp.op == OpConst {
		if cp.val > 1<<22 {
			in.unsupported(fmt.Sprintf("make of %d elements", cp.val))
		}
		a := in.newArray(int(cp.val), elem)
		return Slice{arr: a, len: ln, cap: cp}
	}
	a := in.newLazyArray(cp, elem)
	return Slice{arr: a, len: ln, cap: cp}
}

func isScalarType(t types.Type) bool {
	b, ok := t.Underlying().(*types.Basic)
	return ok && b.Info()&types.IsString == 0 && b.Kind() != types.UnsafePointer
}

func (in *Interp) indexAddr(instr *ssa.IndexAddr, x, idx Value) Value {
	tt := in.tt
	i64 := in.toInt64(idx, instr.Index.Type())
	var slotAt func(i int) *Value
	var ln *Term
	var elemT types.Type
	lazy := false
	switch xv := x.(type) {
	case Slice:
		ln = xv.len
		elemT = instr.X.Type().Underlying().(*types.Slice).Elem()
		if xv.arr != nil {
			lazy = xv.arr.isLazy
		}
		slotAt = func(i int) *Value { return xv.arr.slot(xv.off + i) }
	case *Value:
		if xv == nil {
			in.targetPanic("runtime error: invalid memory address or nil pointer dereference")
		}
		arr, ok := (*xv).(ArrVal)
		if !ok {
			in.unsupported(fmt.Sprintf("IndexAddr: pointee %T", *xv))
		}
		ln = tt.BV(64, uint64(len(arr)))
		elemT = deref(instr.X.Type()).Underlying().(*types.Array).Elem()
		slotAt = func(i int) *Value { return &arr[i] }
	default:
		in.unsupported(fmt.Sprintf("IndexAddr on %T", x))
	}
	inb := tt.Cmp(OpUlt, i64, ln)
	if !in.branch(inb) {
		in.targetPanic(fmt.Sprintf("runtime error: index out of range [%s] with length %s", showValue(i64), showValue(ln)))
	}
	if i64.op == OpConst {
		return slotAt(int(i64.val))
	}
	if ln.op == OpConst && !lazy && isScalarType(elemT) && ln.val <= 4096 {
		n := int(ln.val)
		sp := &SymPtr{slots: make([]*Value, n), idx: i64}
		for i := 0; i < n; i++ {
			sp.slots[i] = slotAt(i)
		}
		return sp
	}
	i := in.concretize(i64, "index")
	return slotAt(int(i))
}

func (in *Interp) indexOp(instr *ssa.Index, x, idx Value) Value {
	tt := in.tt
	i64 := in.toInt64(idx, instr.Index.Type())
	var elems []Value
	switch xv := x.(type) {
	case ArrVal:
		elems = xv
	case Str:
		elems = make([]Value, len(xv.b))
		for i, b := range xv.b {
			elems[i] = b
		}
	default:
		in.unsupported(fmt.Sprintf("Index on %T", x))
	}
	ln := tt.BV(64, uint64(len(elems)))
	if !in.branch(tt.Cmp(OpUlt, i64, ln)) {
		in.targetPanic(fmt.Sprintf("runtime error: index out of range [%s] with length %d", showValue(i64), len(elems)))
	}
	if i64.op == OpConst {
		return copyVal(elems[i64.val])
	}
	if _, ok := elems[0].(*Term); ok {
		n := len(elems)
		acc := elems[n-1].(*Term)
		for i := n - 2; i >= 0; i-- {
			acc = tt.Ite(tt.Eq(i64, tt.BV(64, uint64(i))), elems[i].(*Term), acc)
		}
		return acc
	}
	i := in.concretize(i64, "index")
	return copyVal(elems[i])
}

func (in *Interp) sliceOp(instr *ssa.Slice, x, lo, hi, max Value) Value {
	tt := in.tt
	var loT, hiT, maxT *Term
	if lo != nil {
		loT = in.toInt64(lo, instr.Low.Type())
	} else {
		loT = in.zero64
	}
	if hi != nil {
		hiT = in.toInt64(hi, instr.High.Type())
	}
	if max != nil {
		maxT = in.toInt64(max, instr.Max.Type())
	}
	switch xv := x.(type) {
	case Str:
		n := len(xv.b)
		l := int(in.concretize(loT, "string slice low"))
		h := n
		if hiT != nil {
			// bounds first so that concretisation stays inside
			if !in.branch(tt.Cmp(OpUle, hiT, tt.BV(64, uint64(n)))) {
				in.targetPanic(fmt.Sprintf("runtime error: slice bounds out of range [:%s] with length %d", showValue(hiT), n))
			}
			h = int(in.concretize(hiT, "string slice high"))
		}
		if l < 0 || l > h || h > n {
			in.targetPanic(fmt.Sprintf("runtime error: slice bounds out of range [%d:%d] with length %d", l, h, n))
		}
		return Str{b: xv.b[l:h]}
	case Slice:
		capT := xv.cap
		if hiT == nil {
			hiT = xv.len
		}
		if maxT == nil {
			maxT = capT
		}
		if !in.branch(tt.Cmp(OpUle, maxT, capT)) {
			in.targetPanic(fmt.Sprintf("runtime error: slice bounds out of range [::%s] with capacity %s", showValue(maxT), showValue(capT)))
		}
		if !in.branch(tt.Cmp(OpUle, hiT, maxT)) {
			in.targetPanic(fmt.Sprintf("runtime error: slice bounds out of range [:%s] with capacity %s", showValue(hiT), showValue(maxT)))
		}
		if !in.branch(tt.Cmp(OpUle, loT, hiT)) {
			in.targetPanic(fmt.Sprintf("runtime error: slice bounds out of range [%s:%s]", showValue(loT), showValue(hiT)))
		}
		l := int(in.concretize(loT, "slice low"))
		if xv.arr == nil {
			// nil slice: only [0:0]
			return Slice{len: in.zero64, cap: in.zero64}
		}
		lc := tt.BV(64, uint64(l))
		return Slice{arr: xv.arr, off: xv.off + l, len: tt.Bin(OpSub, hiT, lc), cap: tt.Bin(OpSub, maxT, lc)}
	case *Value:
		if xv == nil {
			in.targetPanic("runtime error: invalid memory address or nil pointer dereference")
		}
		arr, ok := (*xv).(ArrVal)
		if !ok {
			in.unsupported(fmt.Sprintf("slice of pointer to %T", *xv))
		}
		n := len(arr)
		if hiT == nil {
			hiT = tt.BV(64, uint64(n))
		}
		if maxT == nil {
			maxT = tt.BV(64, uint64(n))
		}
		if !in.branch(tt.Cmp(OpUle, maxT, tt.BV(64, uint64(n)))) || !in.branch(tt.Cmp(OpUle, hiT, maxT)) || !in.branch(tt.Cmp(OpUle, loT, hiT)) {
			in.targetPanic("runtime error: slice bounds out of range (array)")
		}
		l := int(in.concretize(loT, "slice low"))
		elemT := deref(instr.X.Type()).Underlying().(*types.Array).Elem()
		// the array value's storage is shared: build an Array aliasing it
		a := &Array{elems: arr, capT: tt.BV(64, uint64(n)), zero: func() Value { return in.zero(elemT) }}
		lc := tt.BV(64, uint64(l))
		return Slice{arr: a, off: l, len: tt.Bin(OpSub, hiT, lc), cap: tt.Bin(OpSub, maxT, lc)}
	}
	in.unsupported(fmt.Sprintf("slice of %T", x))
	return nil
}

func (in *Interp) lookup(instr *ssa.Lookup, x, key Value) Value {
	switch xv := x.(type) {
	case Str:
		// string index
		i64 := in.toInt64(key, instr.Index.Type())
		n := len(xv.b)
		if !in.branch(in.tt.Cmp(OpUlt, i64, in.tt.BV(64, uint64(n)))) {
			in.targetPanic(fmt.Sprintf("runtime error: index out of range [%s] with length %d", showValue(i64), n))
		}
		if i64.op == OpConst {
			return xv.b[i64.val]
		}
		acc := xv.b[n-1]
		for i := n - 2; i >= 0; i-- {
			acc = in.tt.Ite(in.tt.Eq(i64, in.tt.BV(64, uint64(i))), xv.b[i], acc)
		}
		return acc
	case *Map:
		var v Value
		ok := false
		if e := in.mapFind(xv, key); e != nil {
			v = copyVal(e.v)
			ok = true
		} else {
			v = in.zero(instr.X.Type().Underlying().(*types.Map).Elem())
		}
		if instr.CommaOk {
			return Tuple{v, in.tt.Bool(ok)}
		}
		return v
	}
	in.unsupported(fmt.Sprintf("lookup on %T", x))
	return nil
}

// ---- range -------------------------------------------------------------------

type iterator interface {
	next(in *Interp) Value
}

type mapIter struct {
	m    *Map
	keys []*mapEntry
	i    int
	kt   types.Type
	vt   types.Type
}

func (it *mapIter) next(in *Interp) Value {
	for it.i < len(it.keys) {
		e := it.keys[it.i]
		it.i++
		if e.deleted {
			continue
		}
		return Tuple{in.tt.T, copyVal(e.k), copyVal(e.v)}
	}
	return Tuple{in.tt.F, in.zero(it.kt), in.zero(it.vt)}
}

type strIter struct {
	s Str
	i int
}

func (it *strIter) next(in *Interp) Value {
	tt := in.tt
	if it.i >= len(it.s.b) {
		return Tuple{tt.F, in.zero64, tt.BV(32, 0)}
	}
	b := it.s.b[it.i]
	pos := it.i
	if b.op == OpConst && b.val >= 0x80 {
		// decode concretely if the whole sequence is concrete
		rest := it.s.b[it.i:]
		var buf []byte
		for _, t := range rest {
			if t.op != OpConst || len(buf) >= 4 {
				break
			}
			buf = append(buf, byte(t.val))
		}
		r, size := decodeRune(buf)
		it.i += size
		return Tuple{tt.T, tt.BV(64, uint64(pos)), tt.BV(32, uint64(r))}
	}
	if b.op != OpConst {
		if !in.branch(tt.Cmp(OpUlt, b, tt.BV(8, 0x80))) {
			in.unsupported("range over string with symbolic non-ASCII byte")
		}
	}
	it.i++
	return Tuple{tt.T, tt.BV(64, uint64(pos)), tt.Zext(b, 32)}
}

func decodeRune(b []byte) (rune, int) {
	for _, r := range string(b) {
		n := len(string(r))
		if r == 0xFFFD {
			return r, 1
		}
		return r, n
	}
	return 0xFFFD, 1
}

func (in *Interp) rangeIter(x Value, t types.Type) Value {
	switch xv := x.(type) {
	case *Map:
		mt := t.Underlying().(*types.Map)
		it := &mapIter{m: xv, kt: mt.Key(), vt: mt.Elem()}
		if xv != nil {
			for _, e := range xv.entries {
				if !e.deleted {
					it.keys = append(it.keys, e)
				}
			}
			in.permuteMapOrder(it)
		}
		return it
	case Str:
		return &strIter{s: xv}
	}
	in.unsupported(fmt.Sprintf("range over %T", x))
	return nil
}

// permuteMapOrder explores iteration orders: all permutations up to
// cfg MapPermMax entries, rotations beyond.
func (in *Interp) permuteMapOrder(it *mapIter) {
	n := len(it.keys)
	if n <= 1 || in.path == nil {
		return
	}
	maxPerm := in.cfg.Params["mapperm"]
	if maxPerm == 0 {
		return // insertion order only (stated in evidence)
	}
	if n <= maxPerm {
		// Lehmer code via successive choices
		keys := append([]*mapEntry{}, it.keys...)
		out := make([]*mapEntry, 0, n)
		for len(keys) > 0 {
			k := in.choose(len(keys))
			out = append(out, keys[k])
			keys = append(keys[:k], keys[k+1:]...)
		}
		it.keys = out
		return
	}
	k := in.choose(n)
	it.keys = append(append([]*mapEntry{}, it.keys[k:]...), it.keys[:k]...)
}

// ---- channels / select --------------------------------------------------------

func (in *Interp) chanSend(c *Chan, v Value) {
	if c == nil {
		in.abort(abBlocked, "send on nil channel")
	}
	if c.closed {
		in.targetPanic("send on closed channel")
	}
	// single goroutine: an unbuffered send has no receiver; model as queueing
	// (the receiver is a recorded goroutine or the harness)
	old := c.buf
	if in.journaling {
		in.journal = append(in.journal, journalEntry{undo: func() { c.buf = old }})
	}
	c.buf = append(append([]Value{}, c.buf...), copyVal(v))
	oldSeq := c.seqs
	in.chanSeq++
	c.seqs = append(append([]int{}, c.seqs...), in.chanSeq)
	if in.journaling {
		in.journal = append(in.journal, journalEntry{undo: func() { c.seqs = oldSeq }})
	}
}

func (in *Interp) chanRecv(c *Chan, ct types.Type) (Value, bool) {
	elem := ct.Underlying().(*types.Chan).Elem()
	if c == nil {
		in.abort(abBlocked, "receive from nil channel")
	}
	if len(c.buf) > 0 {
		v := c.buf[0]
		old := c.buf
		if in.journaling {
			in.journal = append(in.journal, journalEntry{undo: func() { c.buf = old }})
		}
		c.buf = c.buf[1:]
		if len(c.seqs) > 0 {
			oldSeq := c.seqs
			if in.journaling {
				in.journal = append(in.journal, journalEntry{undo: func() { c.seqs = oldSeq }})
			}
			c.seqs = c.seqs[1:]
		}
		return v, true
	}
	if c.closed {
		return in.zero(elem), false
	}
	in.abort(abBlocked, "receive on empty channel "+c.name)
	return nil, false
}

func (in *Interp) chanClose(c *Chan) {
	if c == nil {
		in.targetPanic("close of nil channel")
	}
	if c.closed {
		in.targetPanic("close of closed channel")
	}
	if in.journaling {
		in.journal = append(in.journal, journalEntry{undo: func() { c.closed = false }})
	}
	c.closed = true
	in.chanSeq++
	c.closedSeq = in.chanSeq
}

func (in *Interp) selectOp(fr *frame, instr *ssa.Select) Value {
	tt := in.tt
	// Ready cases. Operations queued by the harness (vGo) are consumed in the
	// program order in which they were issued: the ready receive with the
	// oldest sequence number is taken. Sends are taken only when no receive
	// is ready.
	chosen := -1
	best := int(^uint(0) >> 1)
	var sends []int
	for i, st := range instr.States {
		c, _ := fr.get(st.Chan).(*Chan)
		if c == nil {
			continue
		}
		if st.Dir == types.RecvOnly {
			if len(c.buf) > 0 {
				seq := 0
				if len(c.seqs) > 0 {
					seq = c.seqs[0]
				}
				if seq < best {
					best, chosen = seq, i
				}
			} else if c.closed && c.closedSeq < best {
				best, chosen = c.closedSeq, i
			}
		} else {
			sends = append(sends, i)
		}
	}
	if chosen < 0 && len(sends) > 0 {
		chosen = sends[in.choose(len(sends))]
	}
	if chosen < 0 && instr.Blocking {
		in.abort(abBlocked, "select with no ready case")
	}
	r := Tuple{tt.BV(64, uint64(int64(chosen))), tt.F}
	for i, st := range instr.States {
		if st.Dir == types.RecvOnly {
			elem := st.Chan.Type().Underlying().(*types.Chan).Elem()
			if i == chosen {
				v, ok := in.chanRecv(fr.get(st.Chan).(*Chan), st.Chan.Type())
				r[1] = tt.Bool(ok)
				r = append(r, v)
			} else {
				r = append(r, in.zero(elem))
			}
		} else if i == chosen {
			in.chanSend(fr.get(st.Chan).(*Chan), fr.get(st.Send))
		}
	}
	return r
}

// ---- builtins -------------------------------------------------------------------

func (in *Interp) callBuiltin(caller *frame, fn *ssa.Builtin, args []Value, call *ssa.CallCommon) Value {
	tt := in.tt
	switch fn.Name() {
	case "len":
		switch x := args[0].(type) {
		case Str:
			return tt.BV(64, uint64(len(x.b)))
		case Slice:
			return x.len
		case *Map:
			if x == nil {
				return in.zero64
			}
			return tt.BV(64, uint64(x.live))
		case *Chan:
			if x == nil {
				return in.zero64
			}
			return tt.BV(64, uint64(len(x.buf)))
		case ArrVal:
			return tt.BV(64, uint64(len(x)))
		case *Value:
			if x == nil {
				// len of nil *array is the array length; need type
				if call != nil {
					return tt.BV(64, uint64(deref(call.Args[0].Type()).Underlying().(*types.Array).Len()))
				}
			}
			return tt.BV(64, uint64(len((*x).(ArrVal))))
		}
	case "cap":
		switch x := args[0].(type) {
		case Slice:
			return x.cap
		case *Chan:
			if x == nil {
				return in.zero64
			}
			return tt.BV(64, uint64(x.cap))
		case ArrVal:
			return tt.BV(64, uint64(len(x)))
		case *Value:
			return tt.BV(64, uint64(len((*x).(ArrVal))))
		}
	case "append":
		return in.appendOp(args[0].(Slice), args[1], call)
	case "copy":
		dst := args[0].(Slice)
		var src []Value
		switch s := args[1].(type) {
		case Slice:
			if s.arr != nil {
				src = in.sliceElems(s)
			}
		case Str:
			for _, b := range s.b {
				src = append(src, b)
			}
		}
		n := 0
		if dst.arr != nil {
			n = in.concLen(dst)
		}
		if len(src) < n {
			n = len(src)
		}
		for i := 0; i < n; i++ {
			in.storeInto(dst.arr.slot(dst.off+i), copyVal(src[i]))
		}
		return tt.BV(64, uint64(n))
	case "delete":
		in.mapDelete(args[0].(*Map), args[1])
		return nil
	case "close":
		in.chanClose(args[0].(*Chan))
		return nil
	case "panic":
		panic(targetPanic{args[0]})
	case "print", "println":
		return nil
	case "recover":
		return in.doRecover(caller)
	case "ssa:wrapnilchk":
		if p, ok := args[0].(*Value); ok && p == nil {
			in.targetPanic("value method called using nil pointer")
		}
		return args[0]
	case "min", "max":
		if call == nil {
			break
		}
		t := call.Args[0].Type()
		acc := args[0]
		for _, a := range args[1:] {
			var less *Term
			if fn.Name() == "min" {
				less = in.binop(token.LSS, t, t, a, acc).(*Term)
			} else {
				less = in.binop(token.GTR, t, t, a, acc).(*Term)
			}
			if at, ok := a.(*Term); ok {
				acc = tt.Ite(less, at, acc.(*Term))
			} else if in.branch(less) {
				acc = a
			}
		}
		return acc
	case "clear":
		switch x := args[0].(type) {
		case *Map:
			if x != nil {
				for _, e := range x.entries {
					if !e.deleted {
						in.mapDelete(x, e.k)
					}
				}
			}
		case Slice:
			if x.arr != nil {
				n := in.concLen(x)
				for i := 0; i < n; i++ {
					in.storeInto(x.arr.slot(x.off+i), x.arr.zero())
				}
			}
		}
		return nil
	}
	in.unsupported(fmt.Sprintf("builtin %s(%T)", fn.Name(), args[0]))
	return nil
}

func (in *Interp) doRecover(caller *frame) Value {
	// recover() must be called directly by a deferred function of the
	// panicking frame.
	if caller != nil && !caller.panicking && caller.caller != nil && caller.caller.panicking {
		p := caller.caller.panicVal
		caller.caller.panicking = false
		caller.caller.panicVal = nil
		if tp, ok := p.(targetPanic); ok {
			if i, ok := tp.v.(Iface); ok {
				return i
			}
			return Iface{t: types.Typ[types.String], v: tp.v}
		}
	}
	return Iface{}
}

func growCap(oldCap, needed int) int {
	newcap := oldCap
	doublecap := newcap + newcap
	if needed > doublecap {
		return needed
	}
	const threshold = 256
	if oldCap < threshold {
		if doublecap < needed {
			return needed
		}
		if doublecap == 0 {
			return needed
		}
		return doublecap
	}
	for newcap < needed {
		newcap += (newcap + 3*threshold) / 4
	}
	return newcap
}

func (in *Interp) appendOp(s Slice, add Value, call *ssa.CallCommon) Value {
	tt := in.tt
	var extra []Value
	switch a := add.(type) {
	case Slice:
		if a.arr != nil {
			extra = in.sliceElems(a)
		}
	case Str:
		for _, b := range a.b {
			extra = append(extra, b)
		}
	default:
		in.unsupported(fmt.Sprintf("append of %T", add))
	}
	if len(extra) == 0 {
		return s
	}
	n := 0
	if s.arr != nil {
		n = in.concLen(s)
	}
	need := n + len(extra)
	if s.arr != nil && !s.arr.isLazy {
		c := int(in.concretize(s.cap, "slice capacity"))
		if need <= c {
			for i, e := range extra {
				in.storeInto(s.arr.slot(s.off+n+i), copyVal(e))
			}
			return Slice{arr: s.arr, off: s.off, len: tt.BV(64, uint64(need)), cap: s.cap}
		}
	}
	oldCap := 0
	if s.arr != nil && s.cap.op == OpConst {
		oldCap = int(s.cap.val)
	}
	nc := growCap(oldCap, need)
	var zero func() Value
	if s.arr != nil {
		zero = s.arr.zero
	} else if call != nil {
		et := call.Args[0].Type().Underlying().(*types.Slice).Elem()
		zero = func() Value { return in.zero(et) }
	} else {
		in.unsupported("append to nil slice without type")
	}
	na := &Array{elems: make([]Value, nc), capT: tt.BV(64, uint64(nc)), zero: zero}
	for i := 0; i < n; i++ {
		na.elems[i] = copyVal(*s.arr.slot(s.off + i))
	}
	for i, e := range extra {
		na.elems[n+i] = copyVal(e)
	}
	for i := need; i < nc; i++ {
		na.elems[i] = zero()
	}
	return Slice{arr: na, off: 0, len: tt.BV(64, uint64(need)), cap: tt.BV(64, uint64(nc))}
}

func mathMod(x, y float64) float64 { return math.Mod(x, y) }
