package main

import (
	"fmt"
	"os"
	"sort"
	"strings"
	"sync"
	"time"
)

type abortKind int

const (
	abInfeasible  abortKind = iota // path condition unsatisfiable / assumption false
	abUnsupported                  // engine cannot execute something: inconclusive
	abUnwind                       // unwinding / recursion bound reached on a feasible path
	abBlocked                      // select with no ready case, lock held, ...
	abViolation                    // assertion failed (recorded); path stops
	abBudget                       // time or step budget
	abExit                         // harness asked to end the path normally
)

type abortPath struct {
	kind abortKind
	msg  string
}

type Decision struct {
	Val       uint64
	Excl      []uint64
	Unchecked bool
}

// NondetRec is one nondeterministic input drawn by the harness on a path.
type NondetRec struct {
	Kind  string  // "u8", "bool", "choose", "bytes", ...
	Terms []*Term // variables (or constants for forked choices)
}

type debugRec struct {
	label string
	vals  []Value
}

// collectTerms gathers the symbolic leaves of a value.
func collectTerms(v Value, out *[]*Term, depth int) {
	if depth > 6 {
		return
	}
	switch x := v.(type) {
	case *Term:
		if x.op != OpConst {
			*out = append(*out, x)
		}
	case Str:
		for _, b := range x.b {
			collectTerms(b, out, depth+1)
		}
	case Struct:
		for _, f := range x {
			collectTerms(f, out, depth+1)
		}
	case ArrVal:
		for _, f := range x {
			collectTerms(f, out, depth+1)
		}
	case Slice:
		if x.arr != nil && x.len.op == OpConst {
			for i := 0; i < int(x.len.val) && i < 32; i++ {
				collectTerms(*x.arr.slot(x.off + i), out, depth+1)
			}
		}
	case Iface:
		collectTerms(x.v, out, depth+1)
	case *Value:
		if x != nil {
			collectTerms(*x, out, depth+1)
		}
	}
}

// InputVal is the JSON form of a NondetRec under a model.
type InputVal struct {
	Kind string   `json:"kind"`
	Vals []uint64 `json:"vals"`
}

type Violation struct {
	Harness string     `json:"harness"`
	Msg     string     `json:"msg"`
	Kind    string     `json:"kind"` // assert | panic | unwind | blocked
	Inputs  []InputVal `json:"inputs"`
	Trace   []string   `json:"trace,omitempty"`
	Obs     []string   `json:"obs,omitempty"`
}

type PathState struct {
	prefix     []Decision
	pos        int
	decisions  []Decision
	pc         []*Term
	sent       int
	known      map[*Term]bool
	nondet     []NondetRec
	fresh      int
	steps      int
	depth      int
	obs        []string
	events     []Value
	started    time.Time
	pbTokens   []*pbToken
	pbArrays   map[*Array]*pbToken
	tsTokens   map[*Term]Value
	timeParts  map[*Term]*tparts
	sqlFiles   map[string]*sqlDB
	lazy       map[*Term]*lazyDef
	lazySeen   map[*Term]bool
	debug      []debugRec
	crashK     int64
	crashArmed bool
	crashLeft  int64
	stash      map[string]Value
	uuidCtr    int
}

// Results aggregates over all paths of one harness run (shared by workers).
type Results struct {
	mu           sync.Mutex
	Harness      string
	Paths        int
	Ends         map[string]int
	Violations   []Violation
	Inconclusive []string
	Covers       map[string]int
	AssertSites  map[string]int
	Asserts      int
	AssertsTriv  int
	Forks        int
	Merges       int
	Instrs       int64
	Funcs        map[string]int
	Stubs        map[string]int
	Samples      []PathSample
	UnknownFeas  int
	SolverQ      int
	SolverSat    int
	SolverUnsat  int
	SolverUnk    int
	SolverTime   time.Duration
	MaxQuery     time.Duration
	Witnesses    []Witness
}

type PathSample struct {
	End       string     `json:"end"`
	Decisions int        `json:"decisions"`
	Inputs    []InputVal `json:"inputs,omitempty"`
	Covers    []string   `json:"covers,omitempty"`
}

// Witness is a solver-produced input for a completed path together with the
// engine's observations on that path, to be compared with the native run.
type Witness struct {
	Inputs []InputVal `json:"inputs"`
	Obs    []string   `json:"obs"`
	End    string     `json:"end"`
}

func NewResults(h string) *Results {
	return &Results{Harness: h, Ends: map[string]int{}, Covers: map[string]int{}, AssertSites: map[string]int{}, Funcs: map[string]int{}, Stubs: map[string]int{}}
}

func (r *Results) inconclusive(msg string) {
	r.mu.Lock()
	defer r.mu.Unlock()
	key := msg
	if i := strings.Index(key, "\n"); i >= 0 {
		key = key[:i]
	}
	for _, m := range r.Inconclusive {
		if strings.HasPrefix(m, key) {
			return
		}
	}
	if len(r.Inconclusive) < 50 {
		r.Inconclusive = append(r.Inconclusive, msg)
	}
}

// WorkList is the shared stack of decision prefixes.
type WorkList struct {
	mu     sync.Mutex
	cond   *sync.Cond
	items  [][]Decision
	active int
	stop   bool
}

func NewWorkList() *WorkList {
	w := &WorkList{}
	w.cond = sync.NewCond(&w.mu)
	return w
}

func (w *WorkList) Push(p []Decision) {
	w.mu.Lock()
	w.items = append(w.items, p)
	w.mu.Unlock()
	w.cond.Signal()
}

// Pop returns the next prefix, or nil,false when exploration is complete.
func (w *WorkList) Pop() ([]Decision, bool) {
	w.mu.Lock()
	defer w.mu.Unlock()
	for {
		if w.stop {
			return nil, false
		}
		if n := len(w.items); n > 0 {
			it := w.items[n-1]
			w.items = w.items[:n-1]
			w.active++
			return it, true
		}
		if w.active == 0 {
			w.cond.Broadcast()
			return nil, false
		}
		w.cond.Wait()
	}
}

func (w *WorkList) Done() {
	w.mu.Lock()
	w.active--
	if w.active == 0 && len(w.items) == 0 {
		w.cond.Broadcast()
	}
	w.mu.Unlock()
}

func (w *WorkList) Stop() {
	w.mu.Lock()
	w.stop = true
	w.mu.Unlock()
	w.cond.Broadcast()
}

func (w *WorkList) Len() int {
	w.mu.Lock()
	defer w.mu.Unlock()
	return len(w.items)
}

// ---------------------------------------------------------------------------

func (in *Interp) abort(kind abortKind, msg string) {
	panic(abortPath{kind, msg})
}

func (in *Interp) unsupported(msg string) {
	panic(abortPath{abUnsupported, msg})
}

func (in *Interp) addPC(c *Term) {
	if c.IsTrue() {
		return
	}
	if in.spec != nil {
		panic(specAbort{})
	}
	if c.IsFalse() {
		in.abort(abInfeasible, "false added to path condition")
	}
	p := in.path
	if c.op == OpAnd {
		in.addPC(c.args[0])
		in.addPC(c.args[1])
		return
	}
	if v, ok := p.known[c]; ok {
		if v {
			return
		}
		in.abort(abInfeasible, "contradiction")
	}
	p.pc = append(p.pc, c)
	if c.op == OpNot {
		p.known[c.args[0]] = false
		// not (a or b) => not a, not b
		if o := c.args[0]; o.op == OpOr {
			in.addKnownFalse(o)
		}
	} else {
		p.known[c] = true
	}
}

func (in *Interp) addKnownFalse(o *Term) {
	p := in.path
	for _, a := range o.args {
		if a.op == OpOr {
			in.addKnownFalse(a)
		} else if a.op == OpNot {
			p.known[a.args[0]] = true
		} else {
			p.known[a] = false
		}
	}
}

func (in *Interp) knownVal(c *Term) (bool, bool) {
	p := in.path
	if v, ok := p.known[c]; ok {
		return v, true
	}
	switch c.op {
	case OpNot:
		if v, ok := in.knownVal(c.args[0]); ok {
			return !v, true
		}
	case OpAnd:
		a, oka := in.knownVal(c.args[0])
		b, okb := in.knownVal(c.args[1])
		if (oka && !a) || (okb && !b) {
			return false, true
		}
		if oka && okb {
			return true, true
		}
	case OpOr:
		a, oka := in.knownVal(c.args[0])
		b, okb := in.knownVal(c.args[1])
		if (oka && a) || (okb && b) {
			return true, true
		}
		if oka && okb {
			return false, true
		}
	}
	return false, false
}

func (in *Interp) flushPC() {
	p := in.path
	for ; p.sent < len(p.pc); p.sent++ {
		in.scanLazy(p.pc[p.sent])
		in.solver.Assert(p.pc[p.sent])
	}
}

// scanLazy activates the deferred definitions of variables occurring in t.
func (in *Interp) scanLazy(t *Term) {
	p := in.path
	if len(p.lazy) == 0 || p.lazySeen[t] {
		return
	}
	p.lazySeen[t] = true
	if t.op == OpVar {
		if ld := p.lazy[t]; ld != nil && !ld.active {
			ld.active = true
			p.pc = append(p.pc, ld.def)
			in.scanLazy(ld.def)
		}
		return
	}
	for _, a := range t.args {
		in.scanLazy(a)
	}
}

// check asks the solver for satisfiability of pc ∧ extra.
func (in *Interp) check(extra *Term, model []*Term) (string, map[string]uint64) {
	if extra != nil {
		in.scanLazy(extra)
	}
	for _, m := range model {
		in.scanLazy(m)
	}
	in.flushPC()
	res, vals := in.solver.Check(extra, model)
	if res == "error" {
		in.res.inconclusive("solver error: " + in.solver.LastErr)
		in.solverBroken = true
		in.abort(abUnsupported, "solver error: "+in.solver.LastErr)
	}
	return res, vals
}

// branch decides a boolean condition on the current path, forking when both
// outcomes are feasible.
func (in *Interp) branch(c *Term) bool {
	if c.op == OpConst {
		return c.val == 1
	}
	if in.path == nil {
		in.unsupported("symbolic branch outside a path")
	}
	if v, ok := in.knownVal(c); ok {
		return v
	}
	if in.spec != nil {
		return in.specBranch(c)
	}
	p := in.path
	if p.pos < len(p.prefix) {
		d := p.prefix[p.pos]
		p.pos++
		take := d.Val == 1
		lit := c
		if !take {
			lit = in.tt.Not(c)
		}
		in.addPC(lit)
		p.decisions = append(p.decisions, Decision{Val: d.Val})
		if d.Unchecked {
			res, _ := in.check(nil, nil)
			if res == "unsat" {
				in.abort(abInfeasible, "")
			}
			if res == "unknown" {
				in.stats.unknownFeas++
			}
		}
		return take
	}
	if len(p.decisions) >= in.cfg.MaxDecisions {
		in.abort(abUnwind, fmt.Sprintf("more than %d decisions on one path", in.cfg.MaxDecisions))
	}
	res, _ := in.check(c, nil)
	if res == "unsat" {
		p.decisions = append(p.decisions, Decision{Val: 0})
		in.addPC(in.tt.Not(c))
		return false
	}
	if res == "unknown" {
		in.stats.unknownFeas++
	}
	// is the other side feasible too?
	res2, _ := in.check(in.tt.Not(c), nil)
	if res2 == "unsat" {
		p.decisions = append(p.decisions, Decision{Val: 1})
		in.addPC(c)
		return true
	}
	if res2 == "unknown" {
		in.stats.unknownFeas++
	}
	alt := make([]Decision, len(p.decisions)+1)
	copy(alt, p.decisions)
	alt[len(p.decisions)] = Decision{Val: 0}
	in.work.Push(alt)
	in.stats.forks++
	p.decisions = append(p.decisions, Decision{Val: 1})
	in.addPC(c)
	return true
}

// choose forks n ways without constraint and returns the alternative taken.
func (in *Interp) choose(n int) int {
	if n <= 1 {
		return 0
	}
	if in.spec != nil {
		panic(specAbort{})
	}
	p := in.path
	if in.cfg.Fixed != nil && in.cfg.fixedChoose != nil {
		if v, ok := in.cfg.fixedChoose(in); ok {
			return v
		}
	}
	if p.pos < len(p.prefix) {
		d := p.prefix[p.pos]
		p.pos++
		p.decisions = append(p.decisions, Decision{Val: d.Val})
		return int(d.Val)
	}
	for k := n - 1; k >= 1; k-- {
		alt := make([]Decision, len(p.decisions)+1)
		copy(alt, p.decisions)
		alt[len(p.decisions)] = Decision{Val: uint64(k)}
		in.work.Push(alt)
		in.stats.forks++
	}
	p.decisions = append(p.decisions, Decision{Val: 0})
	return 0
}

// concretize enumerates the feasible values of t, one per path.
func (in *Interp) concretize(t *Term, what string) uint64 {
	if t.op == OpConst {
		return t.val
	}
	if in.spec != nil {
		panic(specAbort{})
	}
	p := in.path
	if p == nil {
		in.unsupported("concretize outside path: " + what)
	}
	var excl []uint64
	if p.pos < len(p.prefix) {
		d := p.prefix[p.pos]
		p.pos++
		if !d.Unchecked {
			in.addPC(in.tt.Eq(t, in.tt.BV(t.w, d.Val)))
			p.decisions = append(p.decisions, Decision{Val: d.Val})
			return d.Val
		}
		excl = d.Excl
	}
	if len(excl) >= in.cfg.MaxConcretize {
		in.unsupported(fmt.Sprintf("more than %d values for %s", in.cfg.MaxConcretize, what))
	}
	ex := in.tt.T
	for _, e := range excl {
		ex = in.tt.And(ex, in.tt.Not(in.tt.Eq(t, in.tt.BV(t.w, e))))
	}
	res, vals := in.check(ex, []*Term{t})
	if res == "unsat" {
		in.abort(abInfeasible, "")
	}
	if res != "sat" {
		in.unsupported("solver unknown while concretising " + what)
	}
	v := vals[in.solver.ref(t)]
	alt := make([]Decision, len(p.decisions)+1)
	copy(alt, p.decisions)
	alt[len(p.decisions)] = Decision{Unchecked: true, Excl: append(append([]uint64{}, excl...), v)}
	in.work.Push(alt)
	in.stats.forks++
	in.addPC(in.tt.Eq(t, in.tt.BV(t.w, v)))
	p.decisions = append(p.decisions, Decision{Val: v})
	return v
}

// freshVar creates an engine-internal variable (not a harness input).
func (in *Interp) freshVar(w int) *Term {
	p := in.path
	if p == nil {
		in.unsupported("fresh variable outside path")
	}
	p.fresh++
	return in.tt.Var(fmt.Sprintf("f%d", p.fresh), w)
}

// nondetVar creates the next harness input variable.
func (in *Interp) nondetVar(kind string, w int) *Term {
	p := in.path
	if fx := in.cfg.Fixed; fx != nil && len(p.nondet) < len(fx) && len(fx[len(p.nondet)].Vals) > 0 {
		var c *Term
		if w == 0 {
			c = in.tt.Bool(fx[len(p.nondet)].Vals[0] != 0)
		} else {
			c = in.tt.BV(w, fx[len(p.nondet)].Vals[0])
		}
		p.nondet = append(p.nondet, NondetRec{Kind: kind, Terms: []*Term{c}})
		return c
	}
	v := in.tt.Var(fmt.Sprintf("n%d_%s", len(p.nondet), kind), w)
	p.nondet = append(p.nondet, NondetRec{Kind: kind, Terms: []*Term{v}})
	return v
}

func (in *Interp) modelVars() []*Term {
	var out []*Term
	for _, n := range in.path.nondet {
		for _, t := range n.Terms {
			if t.op != OpConst {
				out = append(out, t)
			}
		}
	}
	return out
}

func (in *Interp) inputsFromModel(vals map[string]uint64) []InputVal {
	var out []InputVal
	for _, n := range in.path.nondet {
		iv := InputVal{Kind: n.Kind}
		for _, t := range n.Terms {
			if t.op == OpConst {
				iv.Vals = append(iv.Vals, t.val)
			} else {
				iv.Vals = append(iv.Vals, vals[in.solver.ref(t)])
			}
		}
		out = append(out, iv)
	}
	return out
}

func (in *Interp) recordViolation(kind, msg string, vals map[string]uint64) {
	v := Violation{Harness: in.res.Harness, Msg: msg, Kind: kind, Inputs: in.inputsFromModel(vals), Trace: in.stackTrace(), Obs: append([]string{}, in.path.obs...)}
	in.res.mu.Lock()
	if len(in.res.Violations) < in.cfg.MaxViolations {
		in.res.Violations = append(in.res.Violations, v)
	}
	in.res.mu.Unlock()
}

// assertTerm checks that c holds on every input reaching this point.
func (in *Interp) assertTerm(c *Term, msg string) {
	in.stats.asserts++
	in.res.mu.Lock()
	in.res.AssertSites[msg]++
	in.res.mu.Unlock()
	if c.IsTrue() {
		in.stats.assertsTriv++
		return
	}
	if v, ok := in.knownVal(c); ok && v {
		in.stats.assertsTriv++
		return
	}
	mv := in.modelVars()
	var dbg []*Term
	for _, d := range in.path.debug {
		for _, v := range d.vals {
			collectTerms(v, &dbg, 0)
		}
	}
	res, vals := in.check(in.tt.Not(c), append(mv, dbg...))
	switch res {
	case "unsat":
		in.addPC(c)
	case "sat":
		if in.cfg.Trace {
			for _, t := range dbg {
				fmt.Fprintf(os.Stderr, "MODEL %s = %d\n", func() string {
					s := t.String()
					if len(s) > 100 {
						s = s[:100]
					}
					return s
				}(), vals[in.solver.ref(t)])
			}
		}
		in.recordViolation("assert", msg, vals)
		in.abort(abViolation, msg)
	default:
		in.res.inconclusive("solver unknown on assertion: " + msg)
		in.addPC(c)
	}
}

// reportPathFailure records a violation that holds for the whole path
// (panic, unwinding, blocked): any model of the path condition is a witness.
func (in *Interp) reportPathFailure(kind, msg string) {
	res, vals := in.check(nil, in.modelVars())
	if res == "unsat" {
		return
	}
	if res != "sat" {
		in.res.inconclusive("solver unknown on path failure: " + msg)
		return
	}
	in.recordViolation(kind, msg, vals)
}

func (in *Interp) stackTrace() []string {
	var out []string
	for fr := in.curFrame; fr != nil && len(out) < 12; fr = fr.caller {
		pos := ""
		if fr.curInstr != nil {
			pos = in.prog.Fset.Position(fr.curInstr.Pos()).String()
			if i := strings.LastIndex(pos, "/"); i >= 0 {
				pos = pos[i+1:]
			}
		}
		out = append(out, fr.fn.String()+" "+pos)
	}
	return out
}

// ---------------------------------------------------------------------------

type pathStats struct {
	forks       int
	asserts     int
	assertsTriv int
	unknownFeas int
	instrs      int64
	merges      int
}

// runPath executes the harness once along prefix.
func (in *Interp) runPath(prefix []Decision) {
	in.path = &PathState{prefix: prefix, known: map[*Term]bool{}, started: time.Now(), pbArrays: map[*Array]*pbToken{}, tsTokens: map[*Term]Value{}, timeParts: map[*Term]*tparts{}, sqlFiles: map[string]*sqlDB{}, lazy: map[*Term]*lazyDef{}, lazySeen: map[*Term]bool{}}
	in.spec = nil
	in.lastNow = nil
	in.stats = pathStats{}
	in.curFrame = nil
	in.solver.BeginPath()
	in.journaling = true
	end := "return"
	covers := map[string]bool{}
	in.pathCovers = covers
	func() {
		defer func() {
			if r := recover(); r != nil {
				switch r := r.(type) {
				case abortPath:
					switch r.kind {
					case abInfeasible:
						end = "infeasible"
					case abUnsupported:
						end = "unsupported"
						in.res.inconclusive("unsupported: " + r.msg + " @ " + strings.Join(in.stackTrace(), " < "))
					case abUnwind:
						end = "unwind"
						if in.cfg.UnwindIsViolation {
							in.safeReport("unwind", r.msg)
						} else {
							in.res.inconclusive("unwinding bound reached: " + r.msg + " @ " + strings.Join(in.stackTrace(), " < "))
						}
					case abBlocked:
						end = "blocked"
						if in.cfg.BlockedIsViolation {
							in.safeReport("blocked", r.msg)
						}
					case abViolation:
						end = "violation"
					case abBudget:
						end = "budget"
						in.res.inconclusive("budget: " + r.msg)
					case abExit:
						end = "return"
					}
				case targetPanic:
					end = "panic"
					if in.cfg.PanicIsViolation {
						in.safeReport("panic", "panic: "+in.panicString(r.v))
					}
				default:
					end = "engine-error"
					buf := make([]byte, 4096)
					n := runtimeStack(buf)
					in.res.inconclusive(fmt.Sprintf("engine error: %v @ %s\n%s", r, strings.Join(in.stackTrace(), " < "), buf[:n]))
				}
			}
		}()
		in.callFunction(nil, in.harnessFn, nil)
	}()
	// witness for completed paths
	var sample *PathSample
	if end == "return" || end == "blocked" {
		if in.cfg.WitnessEvery > 0 {
			in.res.mu.Lock()
			want := in.res.Paths%in.cfg.WitnessEvery == 0 && len(in.res.Witnesses) < in.cfg.MaxWitnesses
			in.res.mu.Unlock()
			if want && !in.solverBroken {
				func() {
					defer func() { recover() }()
					res, vals := in.check(nil, in.modelVars())
					if res == "sat" {
						w := Witness{Inputs: in.inputsFromModel(vals), Obs: append([]string{}, in.path.obs...), End: end}
						in.res.mu.Lock()
						in.res.Witnesses = append(in.res.Witnesses, w)
						in.res.mu.Unlock()
					}
				}()
			}
		}
	}
	in.journaling = false
	in.undoJournal()
	in.solver.EndPath()
	r := in.res
	r.mu.Lock()
	if end != "infeasible" {
		r.Paths++
		if len(r.Samples) < 5 || (end != "return" && len(r.Samples) < 10) {
			s := PathSample{End: end, Decisions: len(in.path.decisions)}
			for c := range covers {
				s.Covers = append(s.Covers, c)
			}
			sort.Strings(s.Covers)
			sample = &s
			r.Samples = append(r.Samples, s)
		}
	}
	_ = sample
	r.Ends[end]++
	for c := range covers {
		r.Covers[c]++
	}
	r.Forks += in.stats.forks
	r.Merges += in.stats.merges
	r.Asserts += in.stats.asserts
	r.AssertsTriv += in.stats.assertsTriv
	r.UnknownFeas += in.stats.unknownFeas
	r.Instrs += in.stats.instrs
	r.mu.Unlock()
	in.path = nil
}

func (in *Interp) safeReport(kind, msg string) {
	defer func() {
		if r := recover(); r != nil {
			in.res.inconclusive(fmt.Sprintf("while reporting %s: %v", kind, r))
		}
	}()
	in.reportPathFailure(kind, msg)
}
