package main

// Hash-consed SMT term DAG with a light simplifier. Sorts are Bool (w==0) and
// (_ BitVec w) for 1 <= w <= 64. Floats are carried as their IEEE bit
// patterns; floating point operations appear as raw template terms that
// convert with to_fp at the point of use.

import (
	"fmt"
	"math/bits"
	"strings"
)

type Op uint8

const (
	OpConst Op = iota
	OpVar
	OpNot
	OpAnd
	OpOr
	OpIte
	OpEq
	OpAdd
	OpSub
	OpMul
	OpUDiv
	OpURem
	OpSDiv
	OpSRem
	OpBAnd
	OpBOr
	OpBXor
	OpBNot
	OpNeg
	OpShl
	OpLshr
	OpAshr
	OpUlt
	OpUle
	OpSlt
	OpSle
	OpConcat
	OpExtract // val = hi<<8 | lo
	OpZext
	OpSext
	OpRaw // name = template with %0 %1 ...
	OpApp // uninterpreted function application, name = function symbol
)

var opName = map[Op]string{
	OpNot: "not", OpAnd: "and", OpOr: "or", OpIte: "ite", OpEq: "=",
	OpAdd: "bvadd", OpSub: "bvsub", OpMul: "bvmul", OpUDiv: "bvudiv", OpURem: "bvurem",
	OpSDiv: "bvsdiv", OpSRem: "bvsrem", OpBAnd: "bvand", OpBOr: "bvor", OpBXor: "bvxor",
	OpBNot: "bvnot", OpNeg: "bvneg", OpShl: "bvshl", OpLshr: "bvlshr", OpAshr: "bvashr",
	OpUlt: "bvult", OpUle: "bvule", OpSlt: "bvslt", OpSle: "bvsle", OpConcat: "concat",
}

type Term struct {
	op   Op
	w    int // 0 = Bool
	val  uint64
	name string
	args []*Term
	id   int
}

type termKey struct {
	op         Op
	w          int
	val        uint64
	name       string
	a0, a1, a2 int
}

type TermTable struct {
	tab  map[termKey]*Term
	next int
	T, F *Term
}

func NewTermTable() *TermTable {
	tt := &TermTable{tab: map[termKey]*Term{}}
	tt.T = tt.mk(OpConst, 0, 1, "", nil)
	tt.F = tt.mk(OpConst, 0, 0, "", nil)
	return tt
}

func (tt *TermTable) mk(op Op, w int, val uint64, name string, args []*Term) *Term {
	k := termKey{op: op, w: w, val: val, name: name, a0: -1, a1: -1, a2: -1}
	switch len(args) {
	case 0:
	case 1:
		k.a0 = args[0].id
	case 2:
		k.a0, k.a1 = args[0].id, args[1].id
	case 3:
		k.a0, k.a1, k.a2 = args[0].id, args[1].id, args[2].id
	default:
		var sb strings.Builder
		sb.WriteString(name)
		for _, a := range args {
			fmt.Fprintf(&sb, ",%d", a.id)
		}
		k.name = sb.String()
	}
	if t, ok := tt.tab[k]; ok {
		return t
	}
	t := &Term{op: op, w: w, val: val, name: name, args: args, id: tt.next}
	tt.next++
	tt.tab[k] = t
	return t
}

func mask(w int) uint64 {
	if w >= 64 {
		return ^uint64(0)
	}
	return (uint64(1) << uint(w)) - 1
}

func (t *Term) IsConst() bool { return t.op == OpConst }
func (t *Term) IsBool() bool  { return t.w == 0 }
func (t *Term) IsTrue() bool  { return t.op == OpConst && t.w == 0 && t.val == 1 }
func (t *Term) IsFalse() bool { return t.op == OpConst && t.w == 0 && t.val == 0 }

// signed value of a constant
func (t *Term) sval() int64 {
	if t.w >= 64 {
		return int64(t.val)
	}
	if t.val&(uint64(1)<<uint(t.w-1)) != 0 {
		return int64(t.val | ^mask(t.w))
	}
	return int64(t.val)
}

func (tt *TermTable) BV(w int, v uint64) *Term {
	if w <= 0 || w > 64 {
		panic(fmt.Sprintf("BV width %d", w))
	}
	return tt.mk(OpConst, w, v&mask(w), "", nil)
}

func (tt *TermTable) Bool(b bool) *Term {
	if b {
		return tt.T
	}
	return tt.F
}

func (tt *TermTable) Var(name string, w int) *Term {
	return tt.mk(OpVar, w, 0, name, nil)
}

func (tt *TermTable) Not(a *Term) *Term {
	if a.w != 0 {
		panic("Not on non-bool")
	}
	if a.op == OpConst {
		return tt.Bool(a.val == 0)
	}
	if a.op == OpNot {
		return a.args[0]
	}
	return tt.mk(OpNot, 0, 0, "", []*Term{a})
}

func (tt *TermTable) And(a, b *Term) *Term {
	if a.IsFalse() || b.IsFalse() {
		return tt.F
	}
	if a.IsTrue() {
		return b
	}
	if b.IsTrue() {
		return a
	}
	if a == b {
		return a
	}
	if tt.Not(a) == b {
		return tt.F
	}
	if a.id > b.id {
		a, b = b, a
	}
	return tt.mk(OpAnd, 0, 0, "", []*Term{a, b})
}

func (tt *TermTable) Or(a, b *Term) *Term {
	if a.IsTrue() || b.IsTrue() {
		return tt.T
	}
	if a.IsFalse() {
		return b
	}
	if b.IsFalse() {
		return a
	}
	if a == b {
		return a
	}
	if tt.Not(a) == b {
		return tt.T
	}
	if a.id > b.id {
		a, b = b, a
	}
	return tt.mk(OpOr, 0, 0, "", []*Term{a, b})
}

func (tt *TermTable) Ite(c, a, b *Term) *Term {
	if c.IsTrue() {
		return a
	}
	if c.IsFalse() {
		return b
	}
	if a == b {
		return a
	}
	if a.w != b.w {
		panic(fmt.Sprintf("ite width mismatch %d %d", a.w, b.w))
	}
	if a.w == 0 {
		if a.IsTrue() && b.IsFalse() {
			return c
		}
		if a.IsFalse() && b.IsTrue() {
			return tt.Not(c)
		}
		if a.IsTrue() {
			return tt.Or(c, b)
		}
		if a.IsFalse() {
			return tt.And(tt.Not(c), b)
		}
		if b.IsTrue() {
			return tt.Or(tt.Not(c), a)
		}
		if b.IsFalse() {
			return tt.And(c, a)
		}
	}
	if c.op == OpNot {
		return tt.Ite(c.args[0], b, a)
	}
	// ite(c, x, ite(c, y, z)) = ite(c, x, z)
	if b.op == OpIte && b.args[0] == c {
		return tt.Ite(c, a, b.args[2])
	}
	if a.op == OpIte && a.args[0] == c {
		return tt.Ite(c, a.args[1], b)
	}
	return tt.mk(OpIte, a.w, 0, "", []*Term{c, a, b})
}

// iteDepthConst reports whether t is a tree of ites over constants, with at
// most lim leaves.
func iteConstLeaves(t *Term, lim int) int {
	if t.op == OpConst {
		return 1
	}
	if t.op == OpIte && lim > 1 {
		l := iteConstLeaves(t.args[1], lim-1)
		if l < 0 {
			return -1
		}
		r := iteConstLeaves(t.args[2], lim-l)
		if r < 0 {
			return -1
		}
		return l + r
	}
	return -1
}

func (tt *TermTable) Eq(a, b *Term) *Term {
	if a == b {
		return tt.T
	}
	if a.w != b.w {
		panic(fmt.Sprintf("eq width mismatch %d %d: %s vs %s", a.w, b.w, a, b))
	}
	if a.op == OpConst && b.op == OpConst {
		return tt.Bool(a.val == b.val)
	}
	if a.w == 0 {
		if a.op == OpConst {
			a, b = b, a
		}
		if b.IsTrue() {
			return a
		}
		if b.IsFalse() {
			return tt.Not(a)
		}
	}
	if a.op == OpConst {
		a, b = b, a
	}
	if b.op == OpConst {
		// ite lifting against a constant
		if a.op == OpIte && iteConstLeaves(a, 300) > 0 {
			return tt.Ite(a.args[0], tt.Eq(a.args[1], b), tt.Eq(a.args[2], b))
		}
		// zext(x) == k
		if a.op == OpZext {
			x := a.args[0]
			if b.val > mask(x.w) {
				return tt.F
			}
			return tt.Eq(x, tt.BV(x.w, b.val))
		}
		// concat(zeros, x) == k and general concat: split
		if a.op == OpConcat {
			res := tt.T
			sh := a.w
			for _, p := range a.args {
				sh -= p.w
				res = tt.And(res, tt.Eq(p, tt.BV(p.w, b.val>>uint(sh))))
			}
			return res
		}
	}
	if a.id > b.id {
		a, b = b, a
	}
	return tt.mk(OpEq, 0, 0, "", []*Term{a, b})
}

func foldBin(op Op, w int, x, y uint64) (uint64, bool) {
	m := mask(w)
	sx := func(v uint64) int64 {
		if w < 64 && v&(uint64(1)<<uint(w-1)) != 0 {
			return int64(v | ^m)
		}
		return int64(v)
	}
	switch op {
	case OpAdd:
		return (x + y) & m, true
	case OpSub:
		return (x - y) & m, true
	case OpMul:
		return (x * y) & m, true
	case OpUDiv:
		if y == 0 {
			return m, true
		}
		return x / y, true
	case OpURem:
		if y == 0 {
			return x, true
		}
		return x % y, true
	case OpSDiv:
		if y == 0 {
			return 0, false
		}
		a, b := sx(x), sx(y)
		if b == -1 {
			return uint64(-a) & m, true
		}
		return uint64(a/b) & m, true
	case OpSRem:
		if y == 0 {
			return 0, false
		}
		a, b := sx(x), sx(y)
		if b == -1 {
			return 0, true
		}
		return uint64(a%b) & m, true
	case OpBAnd:
		return x & y, true
	case OpBOr:
		return x | y, true
	case OpBXor:
		return x ^ y, true
	case OpShl:
		if y >= uint64(w) {
			return 0, true
		}
		return (x << y) & m, true
	case OpLshr:
		if y >= uint64(w) {
			return 0, true
		}
		return x >> y, true
	case OpAshr:
		a := sx(x)
		if y >= uint64(w) {
			if a < 0 {
				return m, true
			}
			return 0, true
		}
		return uint64(a>>y) & m, true
	}
	return 0, false
}

// Bin builds a bit-vector binary operation.
func (tt *TermTable) Bin(op Op, a, b *Term) *Term {
	if a.w != b.w || a.w == 0 {
		panic(fmt.Sprintf("bin %s width mismatch %d %d", opName[op], a.w, b.w))
	}
	w := a.w
	if a.op == OpConst && b.op == OpConst {
		if v, ok := foldBin(op, w, a.val, b.val); ok {
			return tt.BV(w, v)
		}
	}
	switch op {
	case OpAdd:
		if a.op == OpConst {
			a, b = b, a
		}
		if b.op == OpConst && b.val == 0 {
			return a
		}
		// (x + c1) + c2
		if b.op == OpConst && a.op == OpAdd && a.args[1].op == OpConst {
			return tt.Bin(OpAdd, a.args[0], tt.BV(w, a.args[1].val+b.val))
		}
	case OpSub:
		if b.op == OpConst && b.val == 0 {
			return a
		}
		if a == b {
			return tt.BV(w, 0)
		}
		if b.op == OpConst {
			return tt.Bin(OpAdd, a, tt.BV(w, -b.val))
		}
	case OpMul:
		if a.op == OpConst {
			a, b = b, a
		}
		if b.op == OpConst {
			if b.val == 0 {
				return b
			}
			if b.val == 1 {
				return a
			}
			if b.val&(b.val-1) == 0 {
				return tt.Bin(OpShl, a, tt.BV(w, uint64(bits.TrailingZeros64(b.val))))
			}
		}
	case OpSDiv, OpSRem:
		// non-negative dividend and positive constant divisor: same as unsigned
		if b.op == OpConst && b.val != 0 && b.val <= mask(w)>>1 {
			if _, hi, _ := tt.urange(a); hi <= mask(w)>>1 {
				if op == OpSDiv {
					return tt.Bin(OpUDiv, a, b)
				}
				return tt.Bin(OpURem, a, b)
			}
		}
	case OpUDiv:
		if b.op == OpConst && b.val == 1 {
			return a
		}
		if b.op == OpConst && b.val != 0 && b.val&(b.val-1) == 0 {
			return tt.Bin(OpLshr, a, tt.BV(w, uint64(bits.TrailingZeros64(b.val))))
		}
	case OpURem:
		if b.op == OpConst && b.val != 0 && b.val&(b.val-1) == 0 {
			return tt.Bin(OpBAnd, a, tt.BV(w, b.val-1))
		}
	case OpBAnd:
		if a.op == OpConst {
			a, b = b, a
		}
		if a == b {
			return a
		}
		if b.op == OpConst {
			if b.val == 0 {
				return b
			}
			if b.val == mask(w) {
				return a
			}
			// low mask: keep low k bits
			if b.val&(b.val+1) == 0 {
				k := bits.Len64(b.val)
				return tt.Zext(tt.Extract(a, k-1, 0), w)
			}
			if r := tt.segAnd(a, b); r != nil {
				return r
			}
		}
	case OpBOr:
		if a.op == OpConst {
			a, b = b, a
		}
		if a == b {
			return a
		}
		if b.op == OpConst {
			if b.val == 0 {
				return a
			}
			if b.val == mask(w) {
				return b
			}
		}
		if r := tt.segOr(a, b); r != nil {
			return r
		}
	case OpBXor:
		if a.op == OpConst {
			a, b = b, a
		}
		if a == b {
			return tt.BV(w, 0)
		}
		if b.op == OpConst && b.val == 0 {
			return a
		}
		if a.op == OpBXor || b.op == OpBXor {
			return tt.xorNorm(w, a, b)
		}
		if b.op != OpConst && a.id > b.id {
			a, b = b, a
		}
	case OpShl:
		if b.op == OpConst {
			if b.val == 0 {
				return a
			}
			if b.val >= uint64(w) {
				return tt.BV(w, 0)
			}
			k := int(b.val)
			// shl(x,k) = concat(extract(w-1-k,0,x), zeros(k))
			return tt.Concat(tt.Extract(a, w-1-k, 0), tt.BV(k, 0))
		}
	case OpLshr:
		if b.op == OpConst {
			if b.val == 0 {
				return a
			}
			if b.val >= uint64(w) {
				return tt.BV(w, 0)
			}
			k := int(b.val)
			return tt.Zext(tt.Extract(a, w-1, k), w)
		}
	case OpAshr:
		if b.op == OpConst && b.val == 0 {
			return a
		}
	}
	return tt.mk(op, w, 0, "", []*Term{a, b})
}

func (tt *TermTable) Cmp(op Op, a, b *Term) *Term {
	if a.w != b.w || a.w == 0 {
		panic(fmt.Sprintf("cmp %s width mismatch %d %d", opName[op], a.w, b.w))
	}
	if a.op == OpConst && b.op == OpConst {
		switch op {
		case OpUlt:
			return tt.Bool(a.val < b.val)
		case OpUle:
			return tt.Bool(a.val <= b.val)
		case OpSlt:
			return tt.Bool(a.sval() < b.sval())
		case OpSle:
			return tt.Bool(a.sval() <= b.sval())
		}
	}
	if a == b {
		return tt.Bool(op == OpUle || op == OpSle)
	}
	w := a.w
	switch op {
	case OpUlt:
		if b.op == OpConst && b.val == 0 {
			return tt.F
		}
		if a.op == OpConst && a.val == mask(w) {
			return tt.F
		}
	case OpUle:
		if a.op == OpConst && a.val == 0 {
			return tt.T
		}
		if b.op == OpConst && b.val == mask(w) {
			return tt.T
		}
		// a <= b  ==  !(b < a)
		return tt.Not(tt.Cmp(OpUlt, b, a))
	case OpSle:
		return tt.Not(tt.Cmp(OpSlt, b, a))
	}
	// range reasoning for zero-extended operands compared with constants
	if lo, hi, ok := tt.urange(a); ok {
		if lo2, hi2, ok2 := tt.urange(b); ok2 {
			switch op {
			case OpUlt:
				if hi < lo2 {
					return tt.T
				}
				if lo >= hi2 {
					return tt.F
				}
			case OpSlt:
				// both non-negative in signed interpretation?
				if hi <= mask(w)>>1 && hi2 <= mask(w)>>1 {
					if hi < lo2 {
						return tt.T
					}
					if lo >= hi2 {
						return tt.F
					}
					return tt.mk(OpUlt, 0, 0, "", []*Term{a, b})
				}
			}
		}
	}
	if a.op == OpIte && b.op == OpConst && iteConstLeaves(a, 300) > 0 {
		return tt.Ite(a.args[0], tt.Cmp(op, a.args[1], b), tt.Cmp(op, a.args[2], b))
	}
	if b.op == OpIte && a.op == OpConst && iteConstLeaves(b, 300) > 0 {
		return tt.Ite(b.args[0], tt.Cmp(op, a, b.args[1]), tt.Cmp(op, a, b.args[2]))
	}
	return tt.mk(op, 0, 0, "", []*Term{a, b})
}

// urange gives cheap unsigned bounds of a term.
func (tt *TermTable) urange(t *Term) (lo, hi uint64, ok bool) {
	switch t.op {
	case OpConst:
		return t.val, t.val, true
	case OpZext:
		return 0, mask(t.args[0].w), true
	case OpConcat:
		// leading zero segment
		if t.args[0].op == OpConst && t.args[0].val == 0 {
			return 0, mask(t.w - t.args[0].w), true
		}
	case OpAdd:
		if t.args[1].op == OpConst {
			if lo, hi, ok := tt.urange(t.args[0]); ok {
				c := t.args[1].val
				if hi+c >= hi && hi+c <= mask(t.w) {
					return lo + c, hi + c, true
				}
			}
		}
	}
	return 0, mask(t.w), true
}

func (tt *TermTable) Un(op Op, a *Term) *Term {
	if a.op == OpConst {
		switch op {
		case OpBNot:
			return tt.BV(a.w, ^a.val)
		case OpNeg:
			return tt.BV(a.w, -a.val)
		}
	}
	if a.op == op {
		return a.args[0]
	}
	return tt.mk(op, a.w, 0, "", []*Term{a})
}

func (tt *TermTable) Extract(a *Term, hi, lo int) *Term {
	if hi < lo || lo < 0 || hi >= a.w {
		panic(fmt.Sprintf("extract %d %d of width %d", hi, lo, a.w))
	}
	if lo == 0 && hi == a.w-1 {
		return a
	}
	nw := hi - lo + 1
	switch a.op {
	case OpConst:
		return tt.BV(nw, a.val>>uint(lo))
	case OpExtract:
		ilo := int(a.val & 0xff)
		return tt.Extract(a.args[0], hi+ilo, lo+ilo)
	case OpZext:
		x := a.args[0]
		if hi < x.w {
			return tt.Extract(x, hi, lo)
		}
		if lo >= x.w {
			return tt.BV(nw, 0)
		}
		return tt.Zext(tt.Extract(x, x.w-1, lo), nw)
	case OpSext:
		x := a.args[0]
		if hi < x.w {
			return tt.Extract(x, hi, lo)
		}
	case OpConcat:
		// pick the parts
		pos := a.w
		var parts []*Term
		for _, p := range a.args {
			phi, plo := pos-1, pos-p.w
			pos -= p.w
			if plo > hi || phi < lo {
				continue
			}
			h, l := phi, plo
			if h > hi {
				h = hi
			}
			if l < lo {
				l = lo
			}
			parts = append(parts, tt.Extract(p, h-plo, l-plo))
		}
		return tt.ConcatN(parts)
	case OpIte:
		if iteConstLeaves(a, 300) > 0 {
			return tt.Ite(a.args[0], tt.Extract(a.args[1], hi, lo), tt.Extract(a.args[2], hi, lo))
		}
	case OpBAnd, OpBOr, OpBXor:
		// distribute when one side constant (keeps masks simple)
		if a.args[1].op == OpConst || a.args[0].op == OpConst {
			return tt.Bin(a.op, tt.Extract(a.args[0], hi, lo), tt.Extract(a.args[1], hi, lo))
		}
	}
	return tt.mk(OpExtract, nw, uint64(hi)<<8|uint64(lo), "", []*Term{a})
}

func (tt *TermTable) Zext(a *Term, w int) *Term {
	if w == a.w {
		return a
	}
	if w < a.w {
		panic("zext narrowing")
	}
	if a.op == OpConst {
		return tt.BV(w, a.val)
	}
	if a.op == OpZext {
		return tt.Zext(a.args[0], w)
	}
	if a.op == OpConcat && a.args[0].op == OpConst && a.args[0].val == 0 {
		return tt.ConcatN(append([]*Term{tt.BV(w-a.w, 0)}, a.args...))
	}
	return tt.mk(OpZext, w, 0, "", []*Term{a})
}

func (tt *TermTable) Sext(a *Term, w int) *Term {
	if w == a.w {
		return a
	}
	if a.op == OpConst {
		return tt.BV(w, uint64(a.sval()))
	}
	if a.op == OpZext {
		return tt.Zext(a.args[0], w)
	}
	if a.op == OpConcat && a.args[0].op == OpConst && a.args[0].val == 0 {
		return tt.Zext(a, w)
	}
	return tt.mk(OpSext, w, 0, "", []*Term{a})
}

func (tt *TermTable) Concat(hi, lo *Term) *Term { return tt.ConcatN([]*Term{hi, lo}) }

// ConcatN concatenates parts (most significant first), flattening nested
// concats, merging constants and adjacent extracts of one term.
func (tt *TermTable) ConcatN(parts []*Term) *Term {
	var flat []*Term
	var add func(p *Term)
	add = func(p *Term) {
		switch p.op {
		case OpConcat:
			for _, q := range p.args {
				add(q)
			}
			return
		case OpZext:
			add(tt.BV(p.w-p.args[0].w, 0))
			add(p.args[0])
			return
		}
		if n := len(flat); n > 0 {
			last := flat[n-1]
			if last.op == OpConst && p.op == OpConst && last.w+p.w <= 64 {
				flat[n-1] = tt.BV(last.w+p.w, last.val<<uint(p.w)|p.val)
				return
			}
			if last.op == OpExtract && p.op == OpExtract && last.args[0] == p.args[0] {
				llo := int(last.val & 0xff)
				phi := int(p.val >> 8)
				if llo == phi+1 {
					flat[n-1] = tt.Extract(p.args[0], int(last.val>>8), int(p.val&0xff))
					return
				}
			}
			// extract(x, hi, k) ++ extract(x,k-1,0) where second is x itself low part
		}
		flat = append(flat, p)
	}
	for _, p := range parts {
		add(p)
	}
	if len(flat) == 1 {
		return flat[0]
	}
	w := 0
	for _, p := range flat {
		w += p.w
	}
	if w > 64 {
		panic("concat wider than 64")
	}
	// leading zero constant followed by a single part: zext
	if len(flat) == 2 && flat[0].op == OpConst && flat[0].val == 0 {
		return tt.mk(OpZext, w, 0, "", []*Term{flat[1]})
	}
	return tt.mk(OpConcat, w, 0, "", flat)
}

// seg is a bit segment: a term, or zero.
type seg struct {
	t *Term // nil = zeros
	w int
}

func (tt *TermTable) segsOf(t *Term) []seg {
	switch t.op {
	case OpConcat:
		var out []seg
		for _, p := range t.args {
			out = append(out, tt.segsOf(p)...)
		}
		return out
	case OpZext:
		return append([]seg{{nil, t.w - t.args[0].w}}, tt.segsOf(t.args[0])...)
	case OpConst:
		if t.val == 0 {
			return []seg{{nil, t.w}}
		}
	}
	return []seg{{t, t.w}}
}

// segOr merges a|b when, bit position by bit position, at most one side is
// non-zero. Returns nil when the pattern does not apply.
func (tt *TermTable) segOr(a, b *Term) *Term {
	sa, sb := tt.segsOf(a), tt.segsOf(b)
	if len(sa) == 1 && sa[0].t != nil && len(sb) == 1 && sb[0].t != nil {
		return nil
	}
	var out []*Term
	i, j := 0, 0
	for i < len(sa) && j < len(sb) {
		x, y := sa[i], sb[j]
		w := x.w
		if y.w < w {
			w = y.w
		}
		var px, py *Term
		if x.t != nil {
			px = tt.Extract(x.t, x.w-1, x.w-w)
		}
		if y.t != nil {
			py = tt.Extract(y.t, y.w-1, y.w-w)
		}
		switch {
		case px == nil && py == nil:
			out = append(out, tt.BV(w, 0))
		case px == nil:
			out = append(out, py)
		case py == nil:
			out = append(out, px)
		default:
			if px.op == OpConst && py.op == OpConst {
				out = append(out, tt.BV(w, px.val|py.val))
			} else {
				return nil
			}
		}
		if x.w == w {
			i++
		} else {
			sa[i] = seg{nil, x.w - w}
			if x.t != nil {
				sa[i].t = tt.Extract(x.t, x.w-w-1, 0)
			}
		}
		if y.w == w {
			j++
		} else {
			sb[j] = seg{nil, y.w - w}
			if y.t != nil {
				sb[j].t = tt.Extract(y.t, y.w-w-1, 0)
			}
		}
	}
	return tt.ConcatN(out)
}

// segAnd computes a & const when a is a concat and the constant is made of
// whole zero / all-one runs aligned with anything; implemented by masking
// byte runs of the constant.
func (tt *TermTable) segAnd(a, c *Term) *Term {
	// split the constant into maximal runs of equal bits
	w := a.w
	var out []*Term
	pos := w
	for pos > 0 {
		bit := (c.val >> uint(pos-1)) & 1
		end := pos - 1
		for end > 0 && (c.val>>uint(end-1))&1 == bit {
			end--
		}
		if bit == 1 {
			out = append(out, tt.Extract(a, pos-1, end))
		} else {
			out = append(out, tt.BV(pos-end, 0))
		}
		pos = end
	}
	if len(out) > 4 {
		return nil
	}
	return tt.ConcatN(out)
}

// Raw builds a template term. tmpl uses %0, %1 ... for the arguments.
func (tt *TermTable) Raw(w int, tmpl string, args ...*Term) *Term {
	return tt.mk(OpRaw, w, 0, tmpl, args)
}

// App builds an uninterpreted function application.
func (tt *TermTable) App(w int, fn string, args ...*Term) *Term {
	return tt.mk(OpApp, w, 0, fn, args)
}

func sortStr(w int) string {
	if w == 0 {
		return "Bool"
	}
	return fmt.Sprintf("(_ BitVec %d)", w)
}

func constStr(t *Term) string {
	if t.w == 0 {
		if t.val == 1 {
			return "true"
		}
		return "false"
	}
	if t.w%4 == 0 {
		return fmt.Sprintf("#x%0*x", t.w/4, t.val)
	}
	return fmt.Sprintf("#b%0*b", t.w, t.val)
}

// String prints a term as a tree (for diagnostics; may be large).
func (t *Term) String() string {
	var sb strings.Builder
	t.write(&sb, 0)
	return sb.String()
}

func (t *Term) write(sb *strings.Builder, depth int) {
	if depth > 40 {
		sb.WriteString("...")
		return
	}
	switch t.op {
	case OpConst:
		sb.WriteString(constStr(t))
	case OpVar:
		sb.WriteString(t.name)
	case OpExtract:
		fmt.Fprintf(sb, "((_ extract %d %d) ", t.val>>8, t.val&0xff)
		t.args[0].write(sb, depth+1)
		sb.WriteString(")")
	case OpZext:
		fmt.Fprintf(sb, "((_ zero_extend %d) ", t.w-t.args[0].w)
		t.args[0].write(sb, depth+1)
		sb.WriteString(")")
	case OpSext:
		fmt.Fprintf(sb, "((_ sign_extend %d) ", t.w-t.args[0].w)
		t.args[0].write(sb, depth+1)
		sb.WriteString(")")
	case OpRaw:
		s := t.name
		for i := len(t.args) - 1; i >= 0; i-- {
			s = strings.ReplaceAll(s, fmt.Sprintf("%%%d", i), t.args[i].String())
		}
		sb.WriteString(s)
	case OpApp:
		if len(t.args) == 0 {
			sb.WriteString(t.name)
			return
		}
		sb.WriteString("(" + t.name)
		for _, a := range t.args {
			sb.WriteString(" ")
			a.write(sb, depth+1)
		}
		sb.WriteString(")")
	default:
		sb.WriteString("(" + opName[t.op])
		for _, a := range t.args {
			sb.WriteString(" ")
			a.write(sb, depth+1)
		}
		sb.WriteString(")")
	}
}

// xorNorm flattens an XOR tree, cancels equal leaves, folds constants and
// rebuilds a chain ordered by term id, so that XOR-combinations that are
// equal as multisets are the same term.
func (tt *TermTable) xorNorm(w int, a, b *Term) *Term {
	var leaves []*Term
	var c uint64
	var walk func(t *Term)
	walk = func(t *Term) {
		if t.op == OpBXor {
			walk(t.args[0])
			walk(t.args[1])
			return
		}
		if t.op == OpConst {
			c ^= t.val
			return
		}
		leaves = append(leaves, t)
	}
	walk(a)
	walk(b)
	sortTermsByID(leaves)
	out := leaves[:0]
	for i := 0; i < len(leaves); i++ {
		if i+1 < len(leaves) && leaves[i] == leaves[i+1] {
			i++
			continue
		}
		out = append(out, leaves[i])
	}
	var acc *Term
	for _, l := range out {
		if acc == nil {
			acc = l
		} else {
			acc = tt.mk(OpBXor, w, 0, "", []*Term{acc, l})
		}
	}
	if acc == nil {
		return tt.BV(w, c)
	}
	if c&mask(w) != 0 {
		acc = tt.mk(OpBXor, w, 0, "", []*Term{acc, tt.BV(w, c)})
	}
	return acc
}

func sortTermsByID(ts []*Term) {
	// insertion sort: lists are short
	for i := 1; i < len(ts); i++ {
		for j := i; j > 0 && ts[j-1].id > ts[j].id; j-- {
			ts[j-1], ts[j] = ts[j], ts[j-1]
		}
	}
}
