package main

import (
	"fmt"
	"go/types"
	"strings"

	"golang.org/x/tools/go/ssa"
)

// Value is the boxed representation of every Go value in the engine:
//
//	*Term      bool, all integer kinds, floats (as IEEE bits)
//	Str        string: vector of byte terms, concrete length
//	Slice      slice header over an *Array
//	Struct     struct value (copied on load/store)
//	ArrVal     array value (copied on load/store)
//	*Value     pointer; *SymPtr pointer with symbolic index
//	Iface      interface value
//	*Map       map
//	*Chan      channel
//	*ssa.Function, *ssa.Builtin, *Closure   function values
//	Tuple      multiple results
//	*Opaque    engine-native objects (stub handles)
type Value interface{}

type Tuple []Value
type Struct []Value
type ArrVal []Value

type Str struct {
	b   []*Term
	tag *strTag // structured strings (DESIGN.md section 3.7)
}

// strTag records that a string is the decimal/clock/date text of terms.
type strTag struct {
	kind string // hourmin | date | num
	vals []*Term
}

type Iface struct {
	t types.Type
	v Value
}

type Closure struct {
	fn  *ssa.Function
	env []Value
}

// Array is the backing store of slices.
type Array struct {
	elems  []Value        // used when !isLazy
	lazy   map[int]*Value // used when isLazy (symbolic capacity)
	isLazy bool
	zero   func() Value
	capT   *Term
}

func (a *Array) slot(i int) *Value {
	if !a.isLazy {
		return &a.elems[i]
	}
	if p, ok := a.lazy[i]; ok {
		return p
	}
	p := new(Value)
	*p = a.zero()
	a.lazy[i] = p
	return p
}

type Slice struct {
	arr *Array
	off int
	len *Term
	cap *Term
}

// SymPtr addresses arr[off+idx] for a symbolic idx in [0,n); elements are
// scalar terms.
type SymPtr struct {
	slots []*Value
	idx   *Term // 64-bit
}

type mapEntry struct {
	k, v    Value
	deleted bool
}

type Map struct {
	kt      types.Type
	entries []*mapEntry
	index   map[string]int // concrete key -> entry index
	live    int
}

type Chan struct {
	buf       []Value
	cap       int
	closed    bool
	name      string
	seqs      []int
	closedSeq int
}

// Opaque is an engine-native object used by stubs.
type Opaque struct {
	kind string
	data interface{}
}

// Poison marks a value produced by an unsupported operation during tolerant
// package initialisation.
type Poison struct{ why string }

func concStr(tt *TermTable, s string) Str {
	b := make([]*Term, len(s))
	for i := 0; i < len(s); i++ {
		b[i] = tt.BV(8, uint64(s[i]))
	}
	return Str{b: b}
}

func (s Str) conc() (string, bool) {
	var sb strings.Builder
	for _, t := range s.b {
		if t.op != OpConst {
			return "", false
		}
		sb.WriteByte(byte(t.val))
	}
	return sb.String(), true
}

func (s Str) show() string {
	var sb strings.Builder
	sb.WriteByte('"')
	for _, t := range s.b {
		if t.op == OpConst {
			c := byte(t.val)
			if c >= 32 && c < 127 && c != '"' {
				sb.WriteByte(c)
			} else {
				fmt.Fprintf(&sb, "\\x%02x", c)
			}
		} else {
			sb.WriteString("?")
		}
	}
	sb.WriteByte('"')
	return sb.String()
}

func basicWidth(k types.BasicKind) int {
	switch k {
	case types.Bool, types.UntypedBool:
		return 0
	case types.Int8, types.Uint8:
		return 8
	case types.Int16, types.Uint16:
		return 16
	case types.Int32, types.Uint32, types.Float32, types.UntypedRune:
		return 32
	case types.Int, types.Uint, types.Int64, types.Uint64, types.Uintptr, types.Float64, types.UntypedInt, types.UntypedFloat:
		return 64
	}
	return -1
}

func isSigned(t types.Type) bool {
	b, ok := t.Underlying().(*types.Basic)
	return ok && b.Info()&types.IsInteger != 0 && b.Info()&types.IsUnsigned == 0
}

func isFloat(t types.Type) bool {
	b, ok := t.Underlying().(*types.Basic)
	return ok && b.Info()&types.IsFloat != 0
}

func isString(t types.Type) bool {
	b, ok := t.Underlying().(*types.Basic)
	return ok && b.Info()&types.IsString != 0
}

func isInteger(t types.Type) bool {
	b, ok := t.Underlying().(*types.Basic)
	return ok && b.Info()&types.IsInteger != 0
}

func typeWidth(t types.Type) int {
	b, ok := t.Underlying().(*types.Basic)
	if !ok {
		return -1
	}
	return basicWidth(b.Kind())
}

func deref(t types.Type) types.Type {
	if p, ok := t.Underlying().(*types.Pointer); ok {
		return p.Elem()
	}
	panic(fmt.Sprintf("deref of non-pointer %s", t))
}

// zero returns the zero value of type t.
func (in *Interp) zero(t types.Type) Value {
	switch u := t.Underlying().(type) {
	case *types.Basic:
		if u.Kind() == types.String || u.Kind() == types.UntypedString {
			return Str{}
		}
		if u.Kind() == types.UnsafePointer {
			return (*Value)(nil)
		}
		if u.Kind() == types.UntypedNil {
			return nil
		}
		w := basicWidth(u.Kind())
		if w < 0 {
			in.unsupported("zero of basic kind " + u.String())
		}
		if w == 0 {
			return in.tt.F
		}
		return in.tt.BV(w, 0)
	case *types.Pointer:
		return (*Value)(nil)
	case *types.Slice:
		return Slice{len: in.zero64, cap: in.zero64}
	case *types.Map:
		return (*Map)(nil)
	case *types.Chan:
		return (*Chan)(nil)
	case *types.Signature:
		return (*ssa.Function)(nil)
	case *types.Interface:
		return Iface{}
	case *types.Struct:
		s := make(Struct, u.NumFields())
		for i := range s {
			s[i] = in.zero(u.Field(i).Type())
		}
		return s
	case *types.Array:
		a := make(ArrVal, u.Len())
		for i := range a {
			a[i] = in.zero(u.Elem())
		}
		return a
	case *types.Tuple:
		if u.Len() == 1 {
			return in.zero(u.At(0).Type())
		}
		tu := make(Tuple, u.Len())
		for i := range tu {
			tu[i] = in.zero(u.At(i).Type())
		}
		return tu
	}
	in.unsupported(fmt.Sprintf("zero of %s", t))
	return nil
}

func copyVal(v Value) Value {
	switch v := v.(type) {
	case Struct:
		n := make(Struct, len(v))
		for i, f := range v {
			n[i] = copyVal(f)
		}
		return n
	case ArrVal:
		n := make(ArrVal, len(v))
		for i, f := range v {
			n[i] = copyVal(f)
		}
		return n
	}
	return v
}

// storeInto writes v into *addr preserving the identity of nested slots of
// structs and arrays (so that field pointers stay valid).
func (in *Interp) storeInto(addr *Value, v Value) {
	switch vv := v.(type) {
	case Struct:
		if cur, ok := (*addr).(Struct); ok && len(cur) == len(vv) {
			for i := range vv {
				in.storeInto(&cur[i], vv[i])
			}
			return
		}
		in.setSlot(addr, copyVal(v))
	case ArrVal:
		if cur, ok := (*addr).(ArrVal); ok && len(cur) == len(vv) {
			for i := range vv {
				in.storeInto(&cur[i], vv[i])
			}
			return
		}
		in.setSlot(addr, copyVal(v))
	default:
		in.setSlot(addr, v)
	}
}

type journalEntry struct {
	addr *Value
	old  Value
	undo func()
}

func (in *Interp) setSlot(addr *Value, v Value) {
	if in.journaling {
		in.journal = append(in.journal, journalEntry{addr: addr, old: *addr})
	}
	*addr = v
}

func (in *Interp) undoJournal() {
	for i := len(in.journal) - 1; i >= 0; i-- {
		e := in.journal[i]
		if e.undo != nil {
			e.undo()
		} else {
			*e.addr = e.old
		}
	}
	in.journal = in.journal[:0]
}

// newArray allocates a concrete-capacity array.
func (in *Interp) newArray(n int, elem types.Type) *Array {
	a := &Array{elems: make([]Value, n), capT: in.tt.BV(64, uint64(n))}
	a.zero = func() Value { return in.zero(elem) }
	for i := range a.elems {
		a.elems[i] = in.zero(elem)
	}
	return a
}

func (in *Interp) newLazyArray(capT *Term, elem types.Type) *Array {
	a := &Array{lazy: map[int]*Value{}, isLazy: true, capT: capT}
	a.zero = func() Value { return in.zero(elem) }
	return a
}

func (in *Interp) sliceOfBytes(b []*Term) Slice {
	a := &Array{elems: make([]Value, len(b)), capT: in.tt.BV(64, uint64(len(b)))}
	a.zero = func() Value { return in.tt.BV(8, 0) }
	for i, t := range b {
		a.elems[i] = t
	}
	n := in.tt.BV(64, uint64(len(b)))
	return Slice{arr: a, len: n, cap: n}
}

func (in *Interp) sliceOfValues(vs []Value, zero func() Value) Slice {
	a := &Array{elems: vs, capT: in.tt.BV(64, uint64(len(vs))), zero: zero}
	n := in.tt.BV(64, uint64(len(vs)))
	return Slice{arr: a, len: n, cap: n}
}

// concLen returns the slice length as a concrete int, concretising if needed.
func (in *Interp) concLen(s Slice) int {
	return int(in.concretize(s.len, "slice length"))
}

func (in *Interp) sliceElems(s Slice) []Value {
	n := in.concLen(s)
	out := make([]Value, n)
	for i := 0; i < n; i++ {
		out[i] = *s.arr.slot(s.off + i)
	}
	return out
}

func (in *Interp) bytesOfSlice(s Slice) []*Term {
	n := in.concLen(s)
	out := make([]*Term, n)
	for i := 0; i < n; i++ {
		out[i] = (*s.arr.slot(s.off + i)).(*Term)
	}
	return out
}

// Map operations ----------------------------------------------------------

// concKey returns a canonical string for a fully concrete key, or "",false.
func concKey(v Value) (string, bool) {
	switch v := v.(type) {
	case *Term:
		if v.op == OpConst {
			return fmt.Sprintf("t%d:%d", v.w, v.val), true
		}
		return "", false
	case Str:
		s, ok := v.conc()
		if !ok {
			return "", false
		}
		return "s" + s, true
	case Struct:
		var sb strings.Builder
		sb.WriteString("{")
		for _, f := range v {
			k, ok := concKey(f)
			if !ok {
				return "", false
			}
			fmt.Fprintf(&sb, "%d:%s,", len(k), k)
		}
		sb.WriteString("}")
		return sb.String(), true
	case ArrVal:
		var sb strings.Builder
		sb.WriteString("[")
		for _, f := range v {
			k, ok := concKey(f)
			if !ok {
				return "", false
			}
			fmt.Fprintf(&sb, "%d:%s,", len(k), k)
		}
		sb.WriteString("]")
		return sb.String(), true
	case Iface:
		if v.t == nil {
			return "nil", true
		}
		k, ok := concKey(v.v)
		if !ok {
			return "", false
		}
		return "i" + v.t.String() + "/" + k, true
	case *Value:
		return fmt.Sprintf("p%p", v), true
	case *Chan:
		return fmt.Sprintf("c%p", v), true
	}
	return "", false
}

func (in *Interp) newMap(kt types.Type) *Map {
	return &Map{kt: kt, index: map[string]int{}}
}

// mapFind returns the entry matching key (forking on symbolic equality), or nil.
func (in *Interp) mapFind(m *Map, key Value) *mapEntry {
	if m == nil {
		return nil
	}
	ck, conc := concKey(key)
	if conc {
		if i, ok := m.index[ck]; ok {
			e := m.entries[i]
			if !e.deleted {
				return e
			}
		}
	}
	// compare against the entries that are not concretely different
	for _, e := range m.entries {
		if e.deleted {
			continue
		}
		if conc {
			if _, ec := concKey(e.k); ec {
				continue // concrete and not found via index => different
			}
		}
		c := in.eqVal(m.kt, e.k, key)
		if in.branch(c) {
			return e
		}
	}
	return nil
}

func (in *Interp) mapInsert(m *Map, key, val Value) {
	if m == nil {
		in.targetPanic("assignment to entry in nil map")
	}
	if e := in.mapFind(m, key); e != nil {
		old := e.v
		if in.journaling {
			in.journal = append(in.journal, journalEntry{undo: func() { e.v = old }})
		}
		e.v = val
		return
	}
	e := &mapEntry{k: key, v: val}
	m.entries = append(m.entries, e)
	m.live++
	idx := len(m.entries) - 1
	ck, conc := concKey(key)
	var hadOld bool
	var oldIdx int
	if conc {
		oldIdx, hadOld = m.index[ck]
		m.index[ck] = idx
	}
	if in.journaling {
		in.journal = append(in.journal, journalEntry{undo: func() {
			m.entries = m.entries[:idx]
			m.live--
			if conc {
				if hadOld {
					m.index[ck] = oldIdx
				} else {
					delete(m.index, ck)
				}
			}
		}})
	}
}

func (in *Interp) mapDelete(m *Map, key Value) {
	if m == nil {
		return
	}
	if e := in.mapFind(m, key); e != nil {
		e.deleted = true
		m.live--
		if in.journaling {
			in.journal = append(in.journal, journalEntry{undo: func() { e.deleted = false; m.live++ }})
		}
	}
}

// Equality -----------------------------------------------------------------

func (in *Interp) strEq(a, b Str) *Term {
	if len(a.b) != len(b.b) {
		return in.tt.F
	}
	r := in.tt.T
	for i := range a.b {
		r = in.tt.And(r, in.tt.Eq(a.b[i], b.b[i]))
		if r.IsFalse() {
			return r
		}
	}
	return r
}

// eqVal builds the boolean term x == y for values of static type t.
func (in *Interp) eqVal(t types.Type, x, y Value) *Term {
	tt := in.tt
	switch xv := x.(type) {
	case *Term:
		yv := y.(*Term)
		if t != nil && isFloat(t) {
			return in.fpCmp("fp.eq", xv, yv)
		}
		return tt.Eq(xv, yv)
	case Str:
		return in.strEq(xv, y.(Str))
	case Struct:
		yv := y.(Struct)
		st := t.Underlying().(*types.Struct)
		r := tt.T
		for i := range xv {
			if st.Field(i).Name() == "_" {
				continue
			}
			r = tt.And(r, in.eqVal(st.Field(i).Type(), xv[i], yv[i]))
		}
		return r
	case ArrVal:
		yv := y.(ArrVal)
		et := t.Underlying().(*types.Array).Elem()
		r := tt.T
		for i := range xv {
			r = tt.And(r, in.eqVal(et, xv[i], yv[i]))
		}
		return r
	case Iface:
		yv := y.(Iface)
		if xv.t == nil || yv.t == nil {
			return tt.Bool(xv.t == nil && yv.t == nil)
		}
		if !types.Identical(xv.t, yv.t) {
			return tt.F
		}
		if !types.Comparable(xv.t) {
			in.targetPanic("runtime error: comparing uncomparable type " + xv.t.String())
		}
		return in.eqVal(xv.t, xv.v, yv.v)
	case *Value:
		yv, ok := y.(*Value)
		if !ok {
			in.unsupported(fmt.Sprintf("pointer comparison with %T", y))
		}
		return tt.Bool(xv == yv)
	case *Map:
		return tt.Bool(xv == y.(*Map))
	case *Chan:
		return tt.Bool(xv == y.(*Chan))
	case Slice:
		yv := y.(Slice)
		return tt.Bool(xv.arr == nil && yv.arr == nil)
	case *ssa.Function:
		if yv, ok := y.(*ssa.Function); ok {
			return tt.Bool(xv == yv)
		}
		return tt.Bool(false)
	case *Closure:
		if yv, ok := y.(*ssa.Function); ok && yv == nil {
			return tt.F
		}
		return tt.Bool(x == y)
	case *ssa.Builtin:
		return tt.Bool(x == y)
	case *NativeFunc:
		return tt.Bool(x == y)
	case *Opaque:
		return tt.Bool(x == y)
	case nil:
		return tt.Bool(y == nil)
	}
	in.unsupported(fmt.Sprintf("equality on %T", x))
	return nil
}

func (in *Interp) isNilValue(v Value) bool {
	switch v := v.(type) {
	case nil:
		return true
	case *Value:
		return v == nil
	case Slice:
		return v.arr == nil
	case *Map:
		return v == nil
	case *Chan:
		return v == nil
	case Iface:
		return v.t == nil
	case *ssa.Function:
		return v == nil
	case *Closure:
		return v == nil
	}
	return false
}

func showValue(v Value) string {
	return showValueD(v, 0)
}

func showValueD(v Value, d int) string {
	if d > 4 {
		return "..."
	}
	switch v := v.(type) {
	case nil:
		return "nil"
	case *Term:
		if v.op == OpConst {
			if v.w == 0 {
				return constStr(v)
			}
			return fmt.Sprintf("%d", v.val)
		}
		s := v.String()
		if len(s) > 80 {
			s = s[:80] + "…"
		}
		return s
	case Str:
		return v.show()
	case Struct:
		var sb strings.Builder
		sb.WriteString("{")
		for i, f := range v {
			if i > 0 {
				sb.WriteString(" ")
			}
			sb.WriteString(showValueD(f, d+1))
		}
		sb.WriteString("}")
		return sb.String()
	case ArrVal:
		var sb strings.Builder
		sb.WriteString("[")
		for i, f := range v {
			if i > 0 {
				sb.WriteString(" ")
			}
			sb.WriteString(showValueD(f, d+1))
		}
		sb.WriteString("]")
		return sb.String()
	case Slice:
		if v.arr == nil {
			return "[]nil"
		}
		if v.len.op != OpConst {
			return "[symbolic len]"
		}
		var sb strings.Builder
		sb.WriteString("[")
		for i := 0; i < int(v.len.val) && i < 16; i++ {
			if i > 0 {
				sb.WriteString(" ")
			}
			sb.WriteString(showValueD(*v.arr.slot(v.off + i), d+1))
		}
		sb.WriteString("]")
		return sb.String()
	case Iface:
		if v.t == nil {
			return "nil"
		}
		return v.t.String() + ":" + showValueD(v.v, d+1)
	case *Value:
		if v == nil {
			return "nil"
		}
		return "&" + showValueD(*v, d+1)
	case Tuple:
		var sb strings.Builder
		sb.WriteString("(")
		for i, f := range v {
			if i > 0 {
				sb.WriteString(", ")
			}
			sb.WriteString(showValueD(f, d+1))
		}
		sb.WriteString(")")
		return sb.String()
	}
	return fmt.Sprintf("%T", v)
}
