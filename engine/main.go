package main

import (
	"encoding/json"
	"flag"
	"fmt"
	"os"
	"path/filepath"
	"sort"
	"strconv"
	"strings"
	"sync"
	"time"

	"golang.org/x/tools/go/packages"
	"golang.org/x/tools/go/ssa"
	"golang.org/x/tools/go/ssa/ssautil"
)

// packages whose bodies may be executed symbolically (besides the module under test)
var allowedStd = map[string]bool{
	"bytes": true, "strings": true, "strconv": true, "encoding/binary": true, "errors": true,
	"sort": true, "slices": true, "math": true, "math/bits": true, "unicode": true, "unicode/utf8": true,
	"io": true, "bufio": true, "internal/itoa": true, "internal/stringslite": true, "cmp": true,
	"github.com/dim13/cobs": true, "github.com/kjx98/crc16": true, "internal/byteorder": true,
	"container/list": true, "maps": true, "iter": true, "encoding/hex": true, "internal/bytealg": true,
	"unicode/utf16": true, "hash/crc32": false, "golang.org/x/exp/slices": true, "golang.org/x/exp/constraints": true, "path": true,
}

type strList []string

func (s *strList) String() string     { return strings.Join(*s, ",") }
func (s *strList) Set(v string) error { *s = append(*s, v); return nil }

type RunOutput struct {
	Harness      string         `json:"harness"`
	Verdict      string         `json:"verdict"` // pass | violation | inconclusive
	Paths        int            `json:"paths"`
	Ends         map[string]int `json:"ends"`
	Violations   []Violation    `json:"violations"`
	Inconclusive []string       `json:"inconclusive"`
	Covers       map[string]int `json:"covers"`
	AssertSites  map[string]int `json:"assert_sites"`
	Asserts      int            `json:"asserts"`
	AssertsTriv  int            `json:"asserts_trivial"`
	Forks        int            `json:"forks"`
	Merges       int            `json:"merges"`
	Instrs       int64          `json:"instrs"`
	Funcs        map[string]int `json:"funcs"`
	Stubs        map[string]int `json:"stubs"`
	Samples      []PathSample   `json:"samples"`
	Witnesses    []Witness      `json:"witnesses"`
	UnknownFeas  int            `json:"unknown_feasibility"`
	Queries      int            `json:"queries"`
	QSat         int            `json:"q_sat"`
	QUnsat       int            `json:"q_unsat"`
	QUnknown     int            `json:"q_unknown"`
	SolverSec    float64        `json:"solver_s"`
	MaxQuerySec  float64        `json:"max_query_s"`
	WallSec      float64        `json:"wall_s"`
	LoadSec      float64        `json:"load_s"`
	Solver       string         `json:"solver"`
	Params       map[string]int `json:"params"`
	Unwind       int            `json:"unwind"`
	Workers      int            `json:"workers"`
}

func main() {
	var (
		repo     = flag.String("repo", "/repo", "repository root")
		pkgPat   = flag.String("pkg", "", "package pattern relative to repo, e.g. ./modbus")
		hdir     = flag.String("harness-dir", "", "directory with harness .go files to overlay into the package")
		fnNames  strList
		workers  = flag.Int("workers", 16, "parallel workers")
		solver   = flag.String("solver", "z3", "z3 | z3-new | cvc5")
		qtimeout = flag.Int("qtimeout", 20000, "per-query solver timeout (ms)")
		budget   = flag.Int("budget", 600, "wall clock budget per harness (s)")
		out      = flag.String("out", "", "write JSON results here")
		unwind   = flag.Int("unwind", 64, "unwinding bound")
		depth    = flag.Int("depth", 200, "call depth bound")
		witness  = flag.Int("witness-every", 0, "produce an input witness for every n-th completed path")
		maxWit   = flag.Int("max-witnesses", 8, "")
		logDir   = flag.String("smtlog", "", "directory for solver transcripts")
		params   strList
		noPanic  = flag.Bool("panic-ok", false, "a target panic escaping the harness is not a violation")
		unwViol  = flag.Bool("unwind-violation", false, "reaching the unwinding bound is a violation (termination properties)")
		blkViol  = flag.Bool("blocked-violation", false, "a blocked path is a violation")
		maxPaths = flag.Int("max-paths", 0, "stop after this many paths (0 = unlimited)")
		verbose  = flag.Bool("v", false, "progress on stderr")
	)
	flag.Var(&fnNames, "fn", "harness function name (repeatable)")
	flag.Var(&params, "param", "harness parameter name=value (repeatable)")
	var ufs, noops strList
	inputsFile := flag.String("inputs", "", "debugging: JSON file with concrete harness inputs ({\"inputs\": [...]})")
	trace := flag.Bool("trace", false, "print vDebug output")
	flag.Var(&noops, "noop", "replace this function (full name) by a no-op returning zero values (repeatable)")
	flag.Var(&ufs, "uf", "summarise this function (full name) as an uninterpreted function (repeatable)")
	flag.Parse()
	if *pkgPat == "" || len(fnNames) == 0 {
		fmt.Fprintln(os.Stderr, "usage: gosym -pkg ./modbus -harness-dir DIR -fn HarnessX [-fn ...]")
		os.Exit(2)
	}
	t0 := time.Now()
	overlay := map[string][]byte{}
	absPkg := filepath.Join(*repo, *pkgPat)
	if *hdir != "" {
		ents, err := os.ReadDir(*hdir)
		if err != nil {
			fatal(err)
		}
		for _, e := range ents {
			if strings.HasSuffix(e.Name(), ".go") {
				b, err := os.ReadFile(filepath.Join(*hdir, e.Name()))
				if err != nil {
					fatal(err)
				}
				overlay[filepath.Join(absPkg, e.Name())] = b
			}
		}
	}
	cfg := &packages.Config{
		Mode: packages.NeedName | packages.NeedFiles | packages.NeedCompiledGoFiles | packages.NeedImports |
			packages.NeedDeps | packages.NeedTypes | packages.NeedSyntax | packages.NeedTypesInfo | packages.NeedTypesSizes | packages.NeedModule,
		Dir:        *repo,
		Overlay:    overlay,
		BuildFlags: []string{"-tags=gosym"},
		Env:        append(os.Environ(), "GOFLAGS=-mod=mod", "GOPROXY=off", "GOSUMDB=off", "GOTOOLCHAIN=local", "CGO_ENABLED=0"),
	}
	pkgs, err := packages.Load(cfg, *pkgPat)
	if err != nil {
		fatal(err)
	}
	nerr := 0
	packages.Visit(pkgs, nil, func(p *packages.Package) {
		for _, e := range p.Errors {
			if nerr < 10 {
				fmt.Fprintln(os.Stderr, "load error:", e)
			}
			nerr++
		}
	})
	if nerr > 0 {
		fatal(fmt.Errorf("%d package load errors", nerr))
	}
	prog, spkgs := ssautil.AllPackages(pkgs, ssa.InstantiateGenerics)
	prog.Build()
	hpkg := spkgs[0]
	if hpkg == nil {
		fatal(fmt.Errorf("no SSA package"))
	}
	modPath := ""
	if pkgs[0].Module != nil {
		modPath = pkgs[0].Module.Path
	}
	sh := &Shared{prog: prog, allowPkg: func(path string) bool {
		if modPath != "" && (path == modPath || strings.HasPrefix(path, modPath+"/")) {
			return true
		}
		return allowedStd[path]
	}}
	loadSec := time.Since(t0).Seconds()

	pm := map[string]int{}
	for _, p := range params {
		kv := strings.SplitN(p, "=", 2)
		if len(kv) == 2 {
			n, _ := strconv.Atoi(kv[1])
			pm[kv[0]] = n
		}
	}

	var outputs []RunOutput
	exit := 0
	for _, fnName := range fnNames {
		fn := hpkg.Func(fnName)
		if fn == nil {
			fatal(fmt.Errorf("harness function %s not found in %s", fnName, hpkg.Pkg.Path()))
		}
		c := DefaultConfig()
		c.Unwind = *unwind
		c.MaxDepth = *depth
		c.Params = pm
		c.UFs = map[string]bool{}
		for _, u := range ufs {
			c.UFs[u] = true
		}
		c.Trace = *trace
		if *inputsFile != "" {
			var f struct {
				Inputs []InputVal `json:"inputs"`
			}
			b, err := os.ReadFile(*inputsFile)
			if err != nil {
				fatal(err)
			}
			if err := json.Unmarshal(b, &f); err != nil {
				fatal(err)
			}
			c.Fixed = f.Inputs
		}
		c.Noops = map[string]bool{}
		for _, u := range noops {
			c.Noops[u] = true
		}
		c.PanicIsViolation = !*noPanic
		c.UnwindIsViolation = *unwViol
		c.BlockedIsViolation = *blkViol
		c.WitnessEvery = *witness
		c.MaxWitnesses = *maxWit
		ro := runHarness(sh, hpkg, fn, c, *workers, *solver, *qtimeout, time.Duration(*budget)*time.Second, *logDir, *maxPaths, *verbose)
		ro.LoadSec = loadSec
		ro.Params = pm
		outputs = append(outputs, ro)
		fmt.Fprintf(os.Stderr, "%s: %s paths=%d ends=%v violations=%d inconclusive=%d queries=%d solver=%.1fs wall=%.1fs\n",
			ro.Harness, ro.Verdict, ro.Paths, ro.Ends, len(ro.Violations), len(ro.Inconclusive), ro.Queries, ro.SolverSec, ro.WallSec)
		if ro.Verdict == "violation" && exit == 0 {
			exit = 1
		}
		if ro.Verdict == "inconclusive" {
			exit = 2
		}
	}
	b, _ := json.MarshalIndent(outputs, "", " ")
	if *out != "" {
		os.WriteFile(*out, b, 0o644)
	} else {
		os.Stdout.Write(b)
		fmt.Println()
	}
	os.Exit(exit)
}

func fatal(err error) {
	fmt.Fprintln(os.Stderr, "gosym:", err)
	os.Exit(3)
}

func runHarness(sh *Shared, hpkg *ssa.Package, fn *ssa.Function, cfg *Config, workers int, solverKind string, qtimeout int, budget time.Duration, logDir string, maxPaths int, verbose bool) RunOutput {
	start := time.Now()
	res := NewResults(fn.Name())
	work := NewWorkList()
	work.Push(nil)
	var wg sync.WaitGroup
	deadline := start.Add(budget)
	var interps []*Interp
	var mu sync.Mutex
	for w := 0; w < workers; w++ {
		wg.Add(1)
		go func(w int) {
			defer wg.Done()
			logPath := ""
			if logDir != "" {
				os.MkdirAll(logDir, 0o755)
				logPath = filepath.Join(logDir, fmt.Sprintf("%s.w%d.smt2", fn.Name(), w))
			}
			s, err := NewSolver(solverKind, qtimeout, logPath)
			if err != nil {
				res.inconclusive("cannot start solver: " + err.Error())
				return
			}
			in := NewInterp(sh, cfg, s)
			in.work = work
			in.res = res
			in.harnessFn = fn
			in.harnessPkg = hpkg
			mu.Lock()
			interps = append(interps, in)
			mu.Unlock()
			for {
				prefix, ok := work.Pop()
				if !ok {
					break
				}
				if time.Now().After(deadline) {
					res.inconclusive(fmt.Sprintf("wall clock budget of %s exhausted with work remaining", budget))
					work.Done()
					work.Stop()
					break
				}
				in.runPath(prefix)
				work.Done()
				if in.solverBroken {
					work.Stop()
					break
				}
				if maxPaths > 0 {
					res.mu.Lock()
					n := res.Paths
					res.mu.Unlock()
					if n >= maxPaths {
						res.inconclusive(fmt.Sprintf("stopped after %d paths (max-paths)", n))
						work.Stop()
						break
					}
				}
			}
			s.Close()
		}(w)
	}
	if verbose {
		done := make(chan struct{})
		go func() {
			tk := time.NewTicker(5 * time.Second)
			defer tk.Stop()
			for {
				select {
				case <-done:
					return
				case <-tk.C:
					res.mu.Lock()
					fmt.Fprintf(os.Stderr, "  [%s] paths=%d queue=%d ends=%v viol=%d\n", fn.Name(), res.Paths, work.Len(), res.Ends, len(res.Violations))
					res.mu.Unlock()
				}
			}
		}()
		defer close(done)
	}
	wg.Wait()
	ro := RunOutput{Harness: fn.Name(), Paths: res.Paths, Ends: res.Ends, Violations: res.Violations, Inconclusive: res.Inconclusive,
		Covers: res.Covers, AssertSites: res.AssertSites, Asserts: res.Asserts, AssertsTriv: res.AssertsTriv, Forks: res.Forks, Merges: res.Merges, Instrs: res.Instrs,
		Samples: res.Samples, Witnesses: res.Witnesses, UnknownFeas: res.UnknownFeas, Solver: solverKind, Unwind: cfg.Unwind, Workers: workers,
		Funcs: map[string]int{}, Stubs: map[string]int{}}
	for _, in := range interps {
		ro.Queries += in.solver.Queries
		ro.QSat += in.solver.Sat
		ro.QUnsat += in.solver.Unsat
		ro.QUnknown += in.solver.Unknown
		ro.SolverSec += in.solver.Time.Seconds()
		if in.solver.MaxQuery.Seconds() > ro.MaxQuerySec {
			ro.MaxQuerySec = in.solver.MaxQuery.Seconds()
		}
		for f, n := range in.funcsSeen {
			ro.Funcs[f.String()] += n
		}
		for f, n := range in.stubsSeen {
			ro.Stubs[f] += n
		}
	}
	ro.WallSec = time.Since(start).Seconds()
	sort.Slice(ro.Violations, func(i, j int) bool { return ro.Violations[i].Msg < ro.Violations[j].Msg })
	switch {
	case len(ro.Violations) > 0:
		ro.Verdict = "violation"
	case len(ro.Inconclusive) > 0:
		ro.Verdict = "inconclusive"
	case ro.Paths == 0:
		ro.Verdict = "inconclusive"
		ro.Inconclusive = append(ro.Inconclusive, "no feasible path (vacuous harness)")
	default:
		ro.Verdict = "pass"
	}
	return ro
}
