package main

// YAML stub (DESIGN.md section 3.8): yaml.Marshal returns a token remembering
// a deep copy of the value; yaml.Unmarshal of the token copies it back with
// every struct field tagged yaml:"-" reset to its zero value (what a real
// round trip through the YAML text does to those fields). All text fidelity
// of the YAML codec is outside the claim.

import (
	"go/types"
	"reflect"
)

func (in *Interp) zeroYamlDash(t types.Type, v Value) Value {
	switch u := t.Underlying().(type) {
	case *types.Struct:
		s, ok := v.(Struct)
		if !ok {
			return v
		}
		out := make(Struct, len(s))
		for i := range s {
			tag := reflect.StructTag(u.Tag(i)).Get("yaml")
			if tag == "-" {
				out[i] = in.zero(u.Field(i).Type())
				continue
			}
			out[i] = in.zeroYamlDash(u.Field(i).Type(), s[i])
		}
		return out
	case *types.Slice:
		sl, ok := v.(Slice)
		if !ok || sl.arr == nil {
			return v
		}
		elems := in.sliceElems(sl)
		n := make([]Value, len(elems))
		for i, e := range elems {
			n[i] = in.zeroYamlDash(u.Elem(), e)
		}
		return in.sliceOfValues(n, sl.arr.zero)
	case *types.Pointer:
		p, ok := v.(*Value)
		if !ok || p == nil {
			return v
		}
		return cell(in.zeroYamlDash(u.Elem(), *p))
	}
	return v
}

func init() {
	const Y = "github.com/goccy/go-yaml."
	intrinsics[Y+"Marshal"] = func(in *Interp, fr *frame, args []Value) Value {
		i := args[0].(Iface)
		if i.t == nil {
			return Tuple{Slice{len: in.zero64, cap: in.zero64}, in.makeError(concStr(in.tt, "yaml: nil value"))}
		}
		bs := []*Term{in.freshVar(8), in.freshVar(8)}
		tok := &pbToken{bytes: bs, msg: in.deepCopy(i.v, map[*Value]*Value{}), typ: i.t}
		sl := in.sliceOfBytes(bs)
		in.path.pbTokens = append(in.path.pbTokens, tok)
		in.path.pbArrays[sl.arr] = tok
		return Tuple{sl, Iface{}}
	}
	intrinsics[Y+"Unmarshal"] = func(in *Interp, fr *frame, args []Value) Value {
		b := args[0].(Slice)
		dst := args[1].(Iface)
		tok := in.pbFindToken(b)
		if tok == nil {
			return in.makeError(concStr(in.tt, "yaml: cannot parse"))
		}
		dp, ok := dst.v.(*Value)
		pt, isPtr := dst.t.Underlying().(*types.Pointer)
		if !ok || dp == nil || !isPtr {
			return in.makeError(concStr(in.tt, "yaml: Unmarshal needs a pointer"))
		}
		if !types.Identical(pt.Elem(), tok.typ) {
			return in.makeError(concStr(in.tt, "yaml: document of another type"))
		}
		v := in.deepCopy(tok.msg, map[*Value]*Value{})
		in.storeInto(dp, in.zeroYamlDash(tok.typ, v))
		return Iface{}
	}
}
