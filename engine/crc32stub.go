package main

// hash/crc32 stub: the hasher records the bytes written; Sum32 is an
// uninterpreted function of that byte vector (one symbol per length). Sound
// for properties that are equalities of XOR-combinations of checksums (they
// must hold for every hash function); nothing is claimed about collisions.

import (
	"fmt"
	"go/types"
)

type crc32rec struct{ bytes []*Term }

func init() {
	intrinsics["hash/crc32.NewIEEE"] = func(in *Interp, fr *frame, args []Value) Value {
		pkg := in.prog.ImportedPackage("hash/crc32")
		if pkg == nil {
			in.unsupported("hash/crc32 not loaded")
		}
		t := types.NewPointer(pkg.Type("digest").Object().Type())
		return Iface{t: t, v: opaquePtr("crc32", &crc32rec{})}
	}
	intrinsics["hash/crc32.ChecksumIEEE"] = func(in *Interp, fr *frame, args []Value) Value {
		b := in.byteSeq(args[0])
		return in.crc32UF(b)
	}
}

func (in *Interp) crc32UF(b []*Term) *Term {
	if len(b) == 0 {
		return in.tt.BV(32, 0)
	}
	return in.tt.App(32, fmt.Sprintf("crc32_%d", len(b)), b...)
}

func (in *Interp) crc32Method(recv Iface, name string) *NativeFunc {
	p, ok := recv.v.(*Value)
	if !ok || p == nil {
		return nil
	}
	o, ok := (*p).(*Opaque)
	if !ok || o.kind != "crc32" {
		return nil
	}
	rec := o.data.(*crc32rec)
	switch name {
	case "Write":
		return &NativeFunc{name: "crc32.Write", f: func(in *Interp, caller *frame, a []Value) Value {
			bs := in.byteSeq(a[1])
			rec.bytes = append(rec.bytes, bs...)
			return Tuple{in.tt.BV(64, uint64(len(bs))), Iface{}}
		}}
	case "Sum32":
		return &NativeFunc{name: "crc32.Sum32", f: func(in *Interp, caller *frame, a []Value) Value {
			return in.crc32UF(rec.bytes)
		}}
	case "Reset":
		return &NativeFunc{name: "crc32.Reset", f: func(in *Interp, caller *frame, a []Value) Value {
			rec.bytes = nil
			return nil
		}}
	}
	return nil
}
