package main

import (
	"fmt"
	"go/types"
	"strings"

	"golang.org/x/tools/go/ssa"
)

type intrinsic func(in *Interp, fr *frame, args []Value) Value

var intrinsics = map[string]intrinsic{}

// prefix intrinsics: any function whose full name starts with the key.
var prefixIntrinsics = map[string]intrinsic{}

func noop(in *Interp, fr *frame, args []Value) Value { return nil }

func init() {
	for _, n := range []string{
		"(*sync.Mutex).Lock", "(*sync.Mutex).Unlock", "(*sync.RWMutex).Lock", "(*sync.RWMutex).Unlock",
		"(*sync.RWMutex).RLock", "(*sync.RWMutex).RUnlock", "(*sync.WaitGroup).Add", "(*sync.WaitGroup).Done",
		"(*sync.WaitGroup).Wait", "time.Sleep", "runtime.Gosched", "runtime.KeepAlive",
	} {
		intrinsics[n] = noop
	}
	prefixIntrinsics["log."] = noop
	prefixIntrinsics["(*log.Logger)."] = noop
	intrinsics["(*sync.Once).Do"] = func(in *Interp, fr *frame, args []Value) Value {
		p := args[0].(*Value)
		s := (*p).(Struct)
		// field 0 is done (atomic.Uint32 or uint32 depending on version): keep our own flag in slot 0
		if _, ok := s[0].(*Opaque); ok {
			return nil
		}
		in.setSlot(&s[0], &Opaque{kind: "once-done"})
		in.callFunction(fr, args[1], nil)
		return nil
	}
	intrinsics["fmt.Errorf"] = func(in *Interp, fr *frame, args []Value) Value {
		was := in.fmtLenient
		in.fmtLenient = true
		defer func() { in.fmtLenient = was }()
		return in.makeError(in.sprintf(args[0].(Str), args[1].(Slice)))
	}
	intrinsics["fmt.Sprintf"] = func(in *Interp, fr *frame, args []Value) Value {
		return in.sprintf(args[0].(Str), args[1].(Slice))
	}
	intrinsics["fmt.Sprint"] = func(in *Interp, fr *frame, args []Value) Value {
		var out Str
		for _, a := range in.sliceElems(args[0].(Slice)) {
			out.b = append(out.b, in.formatValue(a, 'v').b...)
		}
		return out
	}
	for _, n := range []string{"fmt.Println", "fmt.Printf", "fmt.Print", "fmt.Fprintf", "fmt.Fprintln", "fmt.Fprint"} {
		intrinsics[n] = func(in *Interp, fr *frame, args []Value) Value {
			return Tuple{in.zero64, Iface{}}
		}
	}
	intrinsics["errors.Is"] = func(in *Interp, fr *frame, args []Value) Value {
		a, b := args[0].(Iface), args[1].(Iface)
		return in.eqVal(nil, a, b)
	}
	intrinsics["math.Float64bits"] = func(in *Interp, fr *frame, args []Value) Value { return args[0] }
	intrinsics["math.Float64frombits"] = func(in *Interp, fr *frame, args []Value) Value { return args[0] }
	intrinsics["math.Float32bits"] = func(in *Interp, fr *frame, args []Value) Value { return args[0] }
	intrinsics["math.Float32frombits"] = func(in *Interp, fr *frame, args []Value) Value { return args[0] }
	intrinsics["math.IsNaN"] = func(in *Interp, fr *frame, args []Value) Value { return in.fpIsNaN(args[0].(*Term)) }
	intrinsics["math.IsInf"] = func(in *Interp, fr *frame, args []Value) Value {
		x := args[0].(*Term)
		sign := args[1].(*Term)
		tt := in.tt
		pinf := tt.Eq(x, tt.BV(64, 0x7FF0000000000000))
		ninf := tt.Eq(x, tt.BV(64, 0xFFF0000000000000))
		sz := tt.Cmp(OpSlt, sign, tt.BV(64, 0))
		sp := tt.Cmp(OpSlt, tt.BV(64, 0), sign)
		// sign>0: +inf; sign<0: -inf; sign==0 either
		return tt.Ite(sp, pinf, tt.Ite(sz, ninf, tt.Or(pinf, ninf)))
	}
	intrinsics["math.Abs"] = func(in *Interp, fr *frame, args []Value) Value {
		x := args[0].(*Term)
		return in.tt.Bin(OpBAnd, x, in.tt.BV(64, 0x7FFFFFFFFFFFFFFF))
	}
}

func (in *Interp) lookupIntrinsic(fn *ssa.Function) intrinsic {
	// harness-level v* functions
	if fn.Pkg != nil && fn.Pkg == in.harnessPkg && fn.Signature.Recv() == nil {
		if ix, ok := vIntrinsics[fn.Name()]; ok {
			return ix
		}
	}
	name := fn.String()
	if ix, ok := intrinsics[name]; ok {
		return ix
	}
	for p, ix := range prefixIntrinsics {
		if strings.HasPrefix(name, p) {
			return ix
		}
	}
	return nil
}

// nativeMethod resolves interface method calls on engine-native receivers.
func (in *Interp) nativeMethod(recv Iface, m *types.Func) *NativeFunc {
	if nf := in.crc32Method(recv, m.Name()); nf != nil {
		return nf
	}
	if nf := in.rtypeMethod(recv, m.Name()); nf != nil {
		return nf
	}
	return nil
}

// makeError builds an error value carrying msg.
func (in *Interp) makeError(msg Str) Value {
	pkg := in.prog.ImportedPackage("errors")
	if pkg == nil {
		in.unsupported("errors package not loaded")
	}
	t := pkg.Type("errorString").Object().Type()
	p := new(Value)
	*p = Struct{msg}
	return Iface{t: types.NewPointer(t), v: p}
}

// formatValue renders a value the way fmt's %v would, for the value shapes
// that occur in encoded code. Symbolic scalars are unsupported.
func (in *Interp) formatValue(v Value, verb byte) Str {
	tt := in.tt
	switch x := v.(type) {
	case Iface:
		if x.t == nil {
			return concStr(tt, "<nil>")
		}
		// error / Stringer
		if verb == 'v' || verb == 's' {
			if f := in.findMethod(x.t, "Error"); f != nil && f.Signature.Params().Len() == 0 {
				r := in.callFunction(in.curFrame, f, []Value{x.v})
				if s, ok := r.(Str); ok {
					return s
				}
			}
			if f := in.findMethod(x.t, "String"); !in.fmtLenient && f != nil && f.Signature.Params().Len() == 0 && f.Signature.Results().Len() == 1 {
				if ix := in.lookupIntrinsic(f); ix == nil && f.Blocks != nil {
					r := in.callFunction(in.curFrame, f, []Value{x.v})
					if s, ok := r.(Str); ok {
						return s
					}
				}
			}
		}
		return in.formatTyped(x.t, x.v, verb)
	}
	return in.formatTyped(nil, v, verb)
}

func (in *Interp) formatTyped(t types.Type, v Value, verb byte) Str {
	tt := in.tt
	switch x := v.(type) {
	case Str:
		return x
	case *Term:
		if x.op != OpConst {
			// structured placeholder: the text of a symbolic scalar is not modelled
			if in.fmtLenient {
				return concStr(tt, "?")
			}
			return Str{b: []*Term{}}.withTag(in, x)
		}
		if t != nil {
			if b, ok := t.Underlying().(*types.Basic); ok {
				switch {
				case b.Info()&types.IsBoolean != 0:
					return concStr(tt, fmt.Sprint(x.val == 1))
				case b.Info()&types.IsUnsigned != 0:
					if verb == 'x' {
						return concStr(tt, fmt.Sprintf("%x", x.val))
					}
					return concStr(tt, fmt.Sprint(x.val))
				case b.Info()&types.IsInteger != 0:
					if verb == 'x' {
						return concStr(tt, fmt.Sprintf("%x", x.sval()))
					}
					return concStr(tt, fmt.Sprint(x.sval()))
				case b.Info()&types.IsFloat != 0:
					return concStr(tt, fmt.Sprint(fpConstFloat(x)))
				}
			}
		}
		return concStr(tt, fmt.Sprint(x.val))
	case Slice:
		var out Str
		out.b = append(out.b, tt.BV(8, '['))
		if x.arr != nil {
			var et types.Type
			if t != nil {
				if st, ok := t.Underlying().(*types.Slice); ok {
					et = st.Elem()
				}
			}
			for i, e := range in.sliceElems(x) {
				if i > 0 {
					out.b = append(out.b, tt.BV(8, ' '))
				}
				out.b = append(out.b, in.formatTyped(et, e, verb).b...)
			}
		}
		out.b = append(out.b, tt.BV(8, ']'))
		return out
	case nil:
		return concStr(tt, "<nil>")
	}
	return concStr(tt, fmt.Sprintf("<%T>", v))
}

// withTag is the rendering of a symbolic scalar: a one-byte-per-bit free
// text is not modelled, so formatted symbolic numbers are unsupported.
func (s Str) withTag(in *Interp, x *Term) Str {
	in.unsupported("formatting of a symbolic scalar")
	return s
}

func (in *Interp) sprintf(format Str, args Slice) Str {
	f, ok := format.conc()
	if !ok {
		in.unsupported("symbolic format string")
	}
	var av []Value
	if args.arr != nil {
		av = in.sliceElems(args)
	}
	var out Str
	ai := 0
	for i := 0; i < len(f); i++ {
		c := f[i]
		if c != '%' {
			out.b = append(out.b, in.tt.BV(8, uint64(c)))
			continue
		}
		i++
		if i >= len(f) {
			break
		}
		// skip flags / width
		for i < len(f) && strings.IndexByte("+-# 0123456789.", f[i]) >= 0 {
			i++
		}
		if i >= len(f) {
			break
		}
		verb := f[i]
		if verb == '%' {
			out.b = append(out.b, in.tt.BV(8, '%'))
			continue
		}
		if ai >= len(av) {
			out.b = append(out.b, concStr(in.tt, "%!"+string(verb)+"(MISSING)").b...)
			continue
		}
		a := av[ai]
		ai++
		if verb == 'w' {
			verb = 'v'
		}
		out.b = append(out.b, in.formatValue(a, verb).b...)
	}
	return out
}

// findMethod returns the exported method name of t, or nil.
func (in *Interp) findMethod(t types.Type, name string) *ssa.Function {
	ms := in.prog.MethodSets.MethodSet(t)
	sel := ms.Lookup(nil, name)
	if sel == nil {
		return nil
	}
	return in.prog.MethodValue(sel)
}

func init() {
	intrinsics["math.Mod"] = func(in *Interp, fr *frame, args []Value) Value {
		x, y := args[0].(*Term), args[1].(*Term)
		if x.op == OpConst && y.op == OpConst {
			return in.fpConst(64, mathMod(fpConstFloat(x), fpConstFloat(y)))
		}
		if y.op == OpConst && fpConstFloat(y) == 2 {
			// Only "is the result zero" is modelled exactly (that is what
			// parity tests use): r is +-0 iff x is an even integer, r is
			// NaN iff x is NaN or infinite, otherwise r is some non-zero
			// finite value. Pure bit-vector constraints.
			tt := in.tt
			r := in.freshVar(64)
			exp := tt.Extract(x, 62, 52)             // 11 bits
			man := tt.Zext(tt.Extract(x, 51, 0), 64) // 52 bits
			e64 := tt.Zext(exp, 64)
			isZero := tt.Eq(tt.Bin(OpBAnd, x, tt.BV(64, 0x7FFFFFFFFFFFFFFF)), tt.BV(64, 0))
			special := tt.Eq(exp, tt.BV(11, 0x7FF)) // NaN or Inf
			big := tt.And(tt.Not(special), tt.Cmp(OpUle, tt.BV(64, 1023+53), e64))
			inRange := tt.And(tt.Cmp(OpUle, tt.BV(64, 1024), e64), tt.Cmp(OpUle, e64, tt.BV(64, 1023+52)))
			sh := tt.Bin(OpSub, e64, tt.BV(64, 1024)) // E-1
			low := tt.Bin(OpBAnd, tt.Bin(OpShl, man, sh), tt.BV(64, 0x000FFFFFFFFFFFFF))
			even := tt.Or(isZero, tt.Or(big, tt.And(inRange, tt.Eq(low, tt.BV(64, 0)))))
			rZero := tt.Eq(tt.Bin(OpBAnd, r, tt.BV(64, 0x7FFFFFFFFFFFFFFF)), tt.BV(64, 0))
			in.addPC(tt.Eq(rZero, even))
			in.addPC(tt.Eq(in.fpIsNaN(r), special))
			return r
		}
		in.unsupported("math.Mod on symbolic operands")
		return nil
	}
}
