package main

// Protobuf runtime stub (DESIGN.md section 3.3).
//
// proto.Marshal(m) returns a byte slice of arbitrary (symbolic) content and
// bounded arbitrary length that remembers a deep copy of m;
// proto.Unmarshal(b, dst) of such a slice copies the message back (contract:
// unmarshal(marshal(m)) = m); Unmarshal of any other bytes returns an error.
// ptypes.TimestampProto / ptypes.Timestamp are an inverse pair carried by a
// token, so that no division by 10^9 is ever encoded.

import (
	"fmt"
	"go/types"
)

type pbToken struct {
	bytes []*Term
	msg   Value // deep copy of the message struct (pointee)
	typ   types.Type
}

func (in *Interp) deepCopy(v Value, memo map[*Value]*Value) Value {
	switch x := v.(type) {
	case Struct:
		n := make(Struct, len(x))
		for i, f := range x {
			n[i] = in.deepCopy(f, memo)
		}
		return n
	case ArrVal:
		n := make(ArrVal, len(x))
		for i, f := range x {
			n[i] = in.deepCopy(f, memo)
		}
		return n
	case *Value:
		if x == nil {
			return x
		}
		if p, ok := memo[x]; ok {
			return p
		}
		p := new(Value)
		memo[x] = p
		*p = in.deepCopy(*x, memo)
		return p
	case Slice:
		if x.arr == nil {
			return x
		}
		elems := in.sliceElems(x)
		n := make([]Value, len(elems))
		for i, e := range elems {
			n[i] = in.deepCopy(e, memo)
		}
		return in.sliceOfValues(n, x.arr.zero)
	case Iface:
		return Iface{t: x.t, v: in.deepCopy(x.v, memo)}
	case *Map:
		if x == nil {
			return x
		}
		m := in.newMap(x.kt)
		for _, e := range x.entries {
			if !e.deleted {
				in.mapInsert(m, in.deepCopy(e.k, memo), in.deepCopy(e.v, memo))
			}
		}
		return m
	}
	return v
}

func sameTerms(a, b []*Term) bool {
	if len(a) != len(b) {
		return false
	}
	for i := range a {
		if a[i] != b[i] {
			return false
		}
	}
	return true
}

func (in *Interp) pbMarshal(fr *frame, args []Value) Value {
	m, ok := args[0].(Iface)
	if !ok || m.t == nil {
		return Tuple{Slice{len: in.zero64, cap: in.zero64}, in.makeError(concStr(in.tt, "proto: Marshal called with nil"))}
	}
	p, ok := m.v.(*Value)
	if !ok || p == nil {
		// nil message pointer marshals to empty bytes
		return Tuple{Slice{len: in.zero64, cap: in.zero64}, Iface{}}
	}
	// length: arbitrary in 0..pbmax (forked), or fixed by pbfix
	// an all-default message encodes to zero bytes, anything else to >= 1
	n := 0
	if !in.isZeroValue(*p) {
		if f, ok := in.cfg.Params["pbfix"]; ok {
			n = f
		} else {
			max := in.cfg.Params["pbmax"]
			if max == 0 {
				max = 2
			}
			n = 1 + in.choose(max)
		}
	}
	bs := make([]*Term, n)
	for i := range bs {
		bs[i] = in.freshVar(8)
	}
	// an empty marshalling must still be recognisable: tokens are matched by
	// the identity of the backing array first, then by content
	tok := &pbToken{bytes: bs, msg: in.deepCopy(*p, map[*Value]*Value{}), typ: m.t}
	sl := in.sliceOfBytes(bs)
	if n == 0 {
		sl = Slice{arr: in.newArray(0, types.Typ[types.Uint8]), len: in.zero64, cap: in.zero64}
	}
	in.path.pbTokens = append(in.path.pbTokens, tok)
	in.path.pbArrays[sl.arr] = tok
	return Tuple{sl, Iface{}}
}

func (in *Interp) pbFindToken(b Slice) *pbToken {
	if b.arr != nil {
		if t, ok := in.path.pbArrays[b.arr]; ok && b.off == 0 {
			if b.len.op == OpConst && int(b.len.val) == len(t.bytes) {
				return t
			}
		}
	}
	if b.arr == nil {
		return nil
	}
	bs := in.bytesOfSlice(b)
	if len(bs) == 0 {
		return nil
	}
	for i := len(in.path.pbTokens) - 1; i >= 0; i-- {
		if sameTerms(in.path.pbTokens[i].bytes, bs) {
			return in.path.pbTokens[i]
		}
	}
	return nil
}

func (in *Interp) pbUnmarshal(fr *frame, args []Value) Value {
	b := args[0].(Slice)
	m, ok := args[1].(Iface)
	if !ok || m.t == nil {
		return in.makeError(concStr(in.tt, "proto: Unmarshal into nil"))
	}
	dst, ok := m.v.(*Value)
	if !ok || dst == nil {
		return in.makeError(concStr(in.tt, "proto: Unmarshal into nil pointer"))
	}
	tok := in.pbFindToken(b)
	if tok == nil {
		// empty input is a valid encoding of the empty message
		if b.arr == nil || (b.len.op == OpConst && b.len.val == 0) {
			in.storeInto(dst, in.zero(deref(m.t)))
			return Iface{}
		}
		return in.makeError(concStr(in.tt, "proto: cannot parse invalid wire-format data"))
	}
	if !types.Identical(tok.typ, m.t) {
		// another message type: real protobuf would parse what it can or fail
		return in.makeError(concStr(in.tt, "proto: wire data of another message type"))
	}
	in.storeInto(dst, in.deepCopy(tok.msg, map[*Value]*Value{}))
	return Iface{}
}

func init() {
	intrinsics["google.golang.org/protobuf/proto.Marshal"] = func(in *Interp, fr *frame, args []Value) Value { return in.pbMarshal(fr, args) }
	intrinsics["google.golang.org/protobuf/proto.Unmarshal"] = func(in *Interp, fr *frame, args []Value) Value { return in.pbUnmarshal(fr, args) }
	intrinsics["github.com/golang/protobuf/proto.Marshal"] = intrinsics["google.golang.org/protobuf/proto.Marshal"]
	intrinsics["github.com/golang/protobuf/proto.Unmarshal"] = intrinsics["google.golang.org/protobuf/proto.Unmarshal"]

	// generated message plumbing that is irrelevant to the data
	prefixIntrinsics["google.golang.org/protobuf/internal/impl."] = noop
	prefixIntrinsics["(*google.golang.org/protobuf/internal/impl."] = noop

	intrinsics["github.com/golang/protobuf/ptypes.TimestampProto"] = func(in *Interp, fr *frame, args []Value) Value {
		t := args[0]
		resT := fr.fn.Signature.Results().At(0).Type() // *timestamppb.Timestamp
		st := deref(resT)
		v := in.zero(st).(Struct)
		stt := st.Underlying().(*types.Struct)
		sec := in.freshVar(64)
		nan := in.freshVar(32)
		for i := 0; i < stt.NumFields(); i++ {
			switch stt.Field(i).Name() {
			case "Seconds":
				v[i] = sec
			case "Nanos":
				v[i] = nan
			}
		}
		in.path.tsTokens[sec] = copyVal(t)
		// what is known of the fields without dividing by 10^9: the seconds
		// are 0 exactly for instants in [epoch, epoch+1s), negative exactly
		// before the epoch, and the nanos are within a second
		if ts, ok := t.(Struct); ok && len(ts) == 3 && in.partsOf(t) == nil {
			tt := in.tt
			set, ns, _ := in.timeParts(t)
			uns := tt.Ite(set, ns, tt.BV(64, zeroTimeBits))
			in.addPC(tt.Eq(tt.Eq(sec, tt.BV(64, 0)), tt.And(tt.Cmp(OpSle, tt.BV(64, 0), uns), tt.Cmp(OpSlt, uns, tt.BV(64, 1_000_000_000)))))
			in.addPC(tt.Eq(tt.Cmp(OpSlt, sec, tt.BV(64, 0)), tt.Cmp(OpSlt, uns, tt.BV(64, 0))))
			in.addPC(tt.And(tt.Cmp(OpSle, tt.BV(32, 0), nan), tt.Cmp(OpSlt, nan, tt.BV(32, 1_000_000_000))))
		}
		p := new(Value)
		*p = v
		return Tuple{p, Iface{}}
	}
	tsField := func(name string, w int) intrinsic {
		return func(in *Interp, fr *frame, args []Value) Value {
			p, _ := args[0].(*Value)
			if p == nil {
				return in.tt.BV(w, 0) // generated getters are nil-safe
			}
			s := (*p).(Struct)
			pkg := in.prog.ImportedPackage("google.golang.org/protobuf/types/known/timestamppb")
			if pkg == nil {
				in.unsupported("timestamppb not loaded")
			}
			stt := pkg.Type("Timestamp").Object().Type().Underlying().(*types.Struct)
			for i := 0; i < stt.NumFields(); i++ {
				if stt.Field(i).Name() == name {
					return s[i]
				}
			}
			in.unsupported("timestamppb: no field " + name)
			return nil
		}
	}
	intrinsics["(*google.golang.org/protobuf/types/known/timestamppb.Timestamp).GetSeconds"] = tsField("Seconds", 64)
	intrinsics["(*google.golang.org/protobuf/types/known/timestamppb.Timestamp).GetNanos"] = tsField("Nanos", 32)
	intrinsics["github.com/golang/protobuf/ptypes.Timestamp"] = func(in *Interp, fr *frame, args []Value) Value {
		tt := in.tt
		p, _ := args[0].(*Value)
		zeroT := Struct{tt.BV(64, 0), tt.BV(64, 0), (*Value)(nil)}
		if p == nil {
			return Tuple{zeroT, in.makeError(concStr(tt, "timestamp: nil Timestamp"))}
		}
		s := (*p).(Struct)
		st := deref(fr.fn.Signature.Params().At(0).Type()).Underlying().(*types.Struct)
		var sec, nan *Term
		for i := 0; i < st.NumFields(); i++ {
			switch st.Field(i).Name() {
			case "Seconds":
				sec = s[i].(*Term)
			case "Nanos":
				nan = s[i].(*Term)
			}
		}
		if t, ok := in.path.tsTokens[sec]; ok {
			return Tuple{copyVal(t), Iface{}}
		}
		// arbitrary Timestamp: validity as in ptypes.validateTimestamp
		var minValid int64 = -62135596800
		const maxValid = 253402300800
		okc := tt.And(tt.And(tt.Cmp(OpSle, tt.BV(64, uint64(minValid)), sec), tt.Cmp(OpSlt, sec, tt.BV(64, maxValid))),
			tt.And(tt.Cmp(OpSle, tt.BV(32, 0), nan), tt.Cmp(OpSlt, nan, tt.BV(32, 1000000000))))
		if !in.branch(okc) {
			return Tuple{zeroT, in.makeError(concStr(tt, "timestamp: out of range"))}
		}
		// the instant itself is not modelled arithmetically: an arbitrary set instant
		ns := in.freshVar(64)
		return Tuple{in.timeVal(ns), Iface{}}
	}
}

func (in *Interp) describeToken(t *pbToken) string {
	return fmt.Sprintf("pb token %s len %d", t.typ, len(t.bytes))
}

// isZeroValue reports whether v is (concretely) the zero value: the
// protobuf encoding of such a message is empty.
func (in *Interp) isZeroValue(v Value) bool {
	switch x := v.(type) {
	case nil:
		return true
	case *Term:
		return x.op == OpConst && x.val == 0
	case Str:
		return len(x.b) == 0
	case Struct:
		for _, f := range x {
			if !in.isZeroValue(f) {
				return false
			}
		}
		return true
	case ArrVal:
		for _, f := range x {
			if !in.isZeroValue(f) {
				return false
			}
		}
		return true
	case *Value:
		return x == nil
	case Slice:
		return x.arr == nil || (x.len.op == OpConst && x.len.val == 0)
	case *Map:
		return x == nil || x.live == 0
	case Iface:
		return x.t == nil
	}
	return false
}
