package main

// database/sql relational model (DESIGN.md section 3.5). Handles are engine
// objects over in-memory tables whose cells are symbolic values. A small SQL
// parser accepts exactly the statement shapes store/sqlite.go uses (SELECT
// with = / AND / IN, the point UPSERTs, INSERT, UPDATE, DELETE, and DDL);
// any other SQL text makes the run inconclusive, so a changed query is never
// silently mis-modelled.
//
// Semantics: standard relational semantics; PRIMARY KEY uniqueness on the
// first column; REAL columns store NaN as NULL and -0.0 as +0.0; scanning
// NULL into a float fails; empty BLOBs read back as nil; a transaction works
// on a private copy that becomes the durable state exactly at Commit; reads
// outside a transaction see the durable state. Trusted and outside the claim:
// that modernc SQLite behaves like this.

import (
	"fmt"
	"go/types"
	"strconv"
	"strings"
)

type sqlRow []Value // nil = NULL; *Term (INT as 64-bit, REAL as float64 bits); Str; []*Term for BLOB

type sqlBlob []*Term

type sqlTable struct {
	name string
	cols []string
	aff  []string // INT | REAL | TEXT | BLOB
	rows []sqlRow
}

type sqlState struct{ tables map[string]*sqlTable }

func (s *sqlState) clone() *sqlState {
	n := &sqlState{tables: map[string]*sqlTable{}}
	for k, t := range s.tables {
		nt := &sqlTable{name: t.name, cols: t.cols, aff: t.aff, rows: append([]sqlRow{}, t.rows...)}
		n.tables[k] = nt
	}
	return n
}

type sqlDB struct {
	dsn     string
	durable *sqlState
	tx      *sqlTx
	stmts   int
	log     []string
	failAt  int // statement index that fails (-1 none)
	crashAt int // statement index before which the process dies (-1 none)
	openTx  int
}

type sqlTx struct {
	db   *sqlDB
	work *sqlState
	done bool
}

type sqlStmtH struct {
	tx *sqlTx
	db *sqlDB
	q  *sqlParsed
}

type sqlRowsH struct {
	cols   []string
	rows   []sqlRow
	pos    int
	closed bool
}

// ---- parser ---------------------------------------------------------------------

type sqlExpr struct {
	param int   // >0: parameter number
	lit   Value // literal
	isLit bool
}

type sqlCond struct {
	col string
	eq  *sqlExpr
	in  []sqlExpr
}

type sqlParsed struct {
	kind     string // select | insert | update | delete | create | noop | pragma
	table    string
	cols     []string
	count    bool
	where    []sqlCond
	values   []sqlExpr
	conflict string
	sets     []struct {
		col string
		e   sqlExpr
	}
	colDefs [][2]string
	nparams int
	text    string
}

func sqlTokens(s string) ([]string, error) {
	var toks []string
	i := 0
	for i < len(s) {
		c := s[i]
		switch {
		case c == ' ' || c == '\n' || c == '\t' || c == '\r':
			i++
		case c == '\'':
			j := i + 1
			for j < len(s) && s[j] != '\'' {
				j++
			}
			if j >= len(s) {
				return nil, fmt.Errorf("unterminated string literal")
			}
			toks = append(toks, s[i:j+1])
			i = j + 1
		case c == '?':
			j := i + 1
			for j < len(s) && s[j] >= '0' && s[j] <= '9' {
				j++
			}
			toks = append(toks, s[i:j])
			i = j
		case strings.IndexByte("(),=*;", c) >= 0:
			toks = append(toks, string(c))
			i++
		case (c >= 'a' && c <= 'z') || (c >= 'A' && c <= 'Z') || c == '_' || (c >= '0' && c <= '9'):
			j := i
			for j < len(s) && ((s[j] >= 'a' && s[j] <= 'z') || (s[j] >= 'A' && s[j] <= 'Z') || s[j] == '_' || (s[j] >= '0' && s[j] <= '9')) {
				j++
			}
			toks = append(toks, s[i:j])
			i = j
		default:
			return nil, fmt.Errorf("unexpected character %q", c)
		}
	}
	return toks, nil
}

type sqlParser struct {
	toks  []string
	pos   int
	nextP int
	in    *Interp
}

func (p *sqlParser) peek() string {
	if p.pos < len(p.toks) {
		return p.toks[p.pos]
	}
	return ""
}
func (p *sqlParser) next() string {
	t := p.peek()
	p.pos++
	return t
}
func (p *sqlParser) kw(k string) bool {
	if strings.EqualFold(p.peek(), k) {
		p.pos++
		return true
	}
	return false
}
func (p *sqlParser) expect(k string) error {
	if !p.kw(k) {
		return fmt.Errorf("expected %s at %q", k, p.peek())
	}
	return nil
}

func (p *sqlParser) expr() (sqlExpr, error) {
	t := p.next()
	switch {
	case t == "?":
		p.nextP++
		return sqlExpr{param: p.nextP}, nil
	case strings.HasPrefix(t, "?"):
		n, _ := strconv.Atoi(t[1:])
		if n > p.nextP {
			p.nextP = n
		}
		return sqlExpr{param: n}, nil
	case strings.HasPrefix(t, "'"):
		return sqlExpr{isLit: true, lit: concStr(p.in.tt, t[1:len(t)-1])}, nil
	case t != "" && t[0] >= '0' && t[0] <= '9':
		n, err := strconv.ParseInt(t, 10, 64)
		if err != nil {
			return sqlExpr{}, err
		}
		return sqlExpr{isLit: true, lit: p.in.tt.BV(64, uint64(n))}, nil
	}
	return sqlExpr{}, fmt.Errorf("unsupported expression %q", t)
}

func (p *sqlParser) whereClause() ([]sqlCond, error) {
	var conds []sqlCond
	if !p.kw("WHERE") {
		return nil, nil
	}
	for {
		col := p.next()
		if p.kw("IN") {
			if err := p.expect("("); err != nil {
				return nil, err
			}
			var list []sqlExpr
			for {
				e, err := p.expr()
				if err != nil {
					return nil, err
				}
				list = append(list, e)
				if p.kw(",") {
					continue
				}
				break
			}
			if err := p.expect(")"); err != nil {
				return nil, err
			}
			conds = append(conds, sqlCond{col: col, in: list})
		} else {
			if err := p.expect("="); err != nil {
				return nil, err
			}
			e, err := p.expr()
			if err != nil {
				return nil, err
			}
			conds = append(conds, sqlCond{col: col, eq: &e})
		}
		if p.kw("AND") {
			continue
		}
		break
	}
	return conds, nil
}

func (in *Interp) sqlParse(text string) (*sqlParsed, error) {
	toks, err := sqlTokens(text)
	if err != nil {
		return nil, err
	}
	p := &sqlParser{toks: toks, in: in}
	q := &sqlParsed{text: text}
	switch {
	case p.kw("SELECT"):
		q.kind = "select"
		if p.kw("COUNT") {
			p.expect("(")
			p.expect("*")
			p.expect(")")
			if p.kw("AS") {
				p.next()
			}
			q.count = true
		} else {
			for {
				q.cols = append(q.cols, p.next())
				if p.kw(",") {
					continue
				}
				break
			}
		}
		if err := p.expect("FROM"); err != nil {
			return nil, err
		}
		q.table = p.next()
		if strings.EqualFold(q.table, "pragma_table_info") {
			p.expect("(")
			q.table = "pragma:" + strings.Trim(p.next(), "'")
			p.expect(")")
		}
		if q.where, err = p.whereClause(); err != nil {
			return nil, err
		}
	case p.kw("INSERT"):
		q.kind = "insert"
		if err := p.expect("INTO"); err != nil {
			return nil, err
		}
		q.table = p.next()
		if err := p.expect("("); err != nil {
			return nil, err
		}
		for {
			q.cols = append(q.cols, p.next())
			if p.kw(",") {
				continue
			}
			break
		}
		p.expect(")")
		if err := p.expect("VALUES"); err != nil {
			return nil, err
		}
		p.expect("(")
		for {
			e, err := p.expr()
			if err != nil {
				return nil, err
			}
			q.values = append(q.values, e)
			if p.kw(",") {
				continue
			}
			break
		}
		if err := p.expect(")"); err != nil {
			return nil, err
		}
		if p.kw("ON") {
			p.expect("CONFLICT")
			p.expect("(")
			q.conflict = p.next()
			p.expect(")")
			p.expect("DO")
			p.expect("UPDATE")
			p.expect("SET")
			for {
				col := p.next()
				if err := p.expect("="); err != nil {
					return nil, err
				}
				e, err := p.expr()
				if err != nil {
					return nil, err
				}
				q.sets = append(q.sets, struct {
					col string
					e   sqlExpr
				}{col, e})
				if p.kw(",") {
					continue
				}
				break
			}
		}
	case p.kw("UPDATE"):
		q.kind = "update"
		q.table = p.next()
		if err := p.expect("SET"); err != nil {
			return nil, err
		}
		for {
			col := p.next()
			if err := p.expect("="); err != nil {
				return nil, err
			}
			e, err := p.expr()
			if err != nil {
				return nil, err
			}
			q.sets = append(q.sets, struct {
				col string
				e   sqlExpr
			}{col, e})
			if p.kw(",") {
				continue
			}
			break
		}
		if q.where, err = p.whereClause(); err != nil {
			return nil, err
		}
	case p.kw("DELETE"):
		q.kind = "delete"
		if err := p.expect("FROM"); err != nil {
			return nil, err
		}
		q.table = p.next()
		if q.where, err = p.whereClause(); err != nil {
			return nil, err
		}
	case p.kw("CREATE"):
		if p.kw("TABLE") {
			q.kind = "create"
			if p.kw("IF") {
				p.expect("NOT")
				p.expect("EXISTS")
			}
			q.table = p.next()
			p.expect("(")
			for p.pos < len(p.toks) {
				name := p.next()
				typ := p.next()
				q.colDefs = append(q.colDefs, [2]string{name, strings.ToUpper(typ)})
				// skip constraints up to , or )
				for p.pos < len(p.toks) && p.peek() != "," && p.peek() != ")" {
					p.next()
				}
				if p.kw(",") {
					continue
				}
				break
			}
			p.pos = len(p.toks)
		} else {
			q.kind = "noop" // CREATE INDEX
			p.pos = len(p.toks)
		}
	case p.kw("ALTER"):
		q.kind = "alter"
		p.expect("TABLE")
		q.table = p.next()
		p.expect("ADD")
		p.expect("COLUMN")
		name := p.next()
		typ := p.next()
		q.colDefs = append(q.colDefs, [2]string{name, strings.ToUpper(typ)})
	case p.kw("PRAGMA"), p.kw("VACUUM"), p.kw("ANALYZE"):
		q.kind = "noop"
		p.pos = len(p.toks)
	default:
		return nil, fmt.Errorf("unsupported statement")
	}
	p.kw(";")
	if p.pos < len(p.toks) {
		return nil, fmt.Errorf("trailing tokens from %q", p.peek())
	}
	q.nparams = p.nextP
	return q, nil
}

// ---- values -----------------------------------------------------------------------

// bindArg converts a Go argument (boxed in interface{}) to a stored value.
func (in *Interp) sqlBind(a Value) Value {
	i, ok := a.(Iface)
	if !ok {
		in.unsupported(fmt.Sprintf("sql argument %T", a))
	}
	if i.t == nil {
		return nil
	}
	switch u := i.t.Underlying().(type) {
	case *types.Basic:
		switch {
		case u.Info()&types.IsString != 0:
			return i.v.(Str)
		case u.Info()&types.IsBoolean != 0:
			return sqlInt{in.tt.Ite(i.v.(*Term), in.tt.BV(64, 1), in.tt.BV(64, 0))}
		case u.Info()&types.IsInteger != 0:
			t := i.v.(*Term)
			if t.w == 64 {
				return sqlInt{t}
			}
			if u.Info()&types.IsUnsigned != 0 {
				return sqlInt{in.tt.Zext(t, 64)}
			}
			return sqlInt{in.tt.Sext(t, 64)}
		case u.Info()&types.IsFloat != 0:
			t := i.v.(*Term)
			if t.w == 32 {
				return sqlReal{in.conv(types.Typ[types.Float64], types.Typ[types.Float32], t).(*Term)}
			}
			return sqlReal{t}
		}
	case *types.Slice:
		sl := i.v.(Slice)
		if sl.arr == nil {
			return nil
		}
		return sqlBlob(in.bytesOfSlice(sl))
	}
	in.unsupported(fmt.Sprintf("sql argument of type %s", i.t))
	return nil
}

type sqlInt struct{ t *Term }
type sqlReal struct{ t *Term }

// affinity applies the column affinity when storing v.
func (in *Interp) sqlStore(aff string, v Value) Value {
	tt := in.tt
	switch aff {
	case "REAL":
		switch x := v.(type) {
		case sqlInt:
			// integer into REAL column: exact for the small constants used
			if x.t.op == OpConst {
				return sqlReal{in.fpConst(64, float64(x.t.sval()))}
			}
			return sqlReal{in.conv(types.Typ[types.Float64], types.Typ[types.Int64], x.t).(*Term)}
		case sqlReal:
			// NaN is stored as NULL
			if in.branch(in.fpIsNaN(x.t)) {
				return nil
			}
			// -0.0 reads back as +0.0
			negZero := tt.Eq(x.t, tt.BV(64, 1<<63))
			return sqlReal{tt.Ite(negZero, tt.BV(64, 0), x.t)}
		}
	case "INT", "INTEGER":
		if x, ok := v.(sqlReal); ok {
			_ = x
			in.unsupported("REAL value into INT column")
		}
	case "BLOB":
		if b, ok := v.(sqlBlob); ok && len(b) == 0 {
			return sqlBlob{}
		}
	}
	return v
}

func (in *Interp) sqlEq(a, b Value) *Term {
	tt := in.tt
	if a == nil || b == nil {
		return tt.F // NULL = x is never true
	}
	switch x := a.(type) {
	case Str:
		if y, ok := b.(Str); ok {
			return in.strEq(x, y)
		}
	case sqlInt:
		if y, ok := b.(sqlInt); ok {
			return tt.Eq(x.t, y.t)
		}
	case sqlReal:
		if y, ok := b.(sqlReal); ok {
			return in.fpCmp("fp.eq", x.t, y.t)
		}
	}
	in.unsupported(fmt.Sprintf("sql comparison of %T and %T", a, b))
	return nil
}

// ---- execution ----------------------------------------------------------------------

func (in *Interp) sqlEval(e sqlExpr, args []Value) Value {
	if e.isLit {
		switch l := e.lit.(type) {
		case *Term:
			return sqlInt{l}
		}
		return e.lit
	}
	if e.param < 1 || e.param > len(args) {
		return errMissingParam{e.param}
	}
	return args[e.param-1]
}

type errMissingParam struct{ n int }

func colIndex(t *sqlTable, name string) int {
	for i, c := range t.cols {
		if strings.EqualFold(c, name) {
			return i
		}
	}
	return -1
}

func (in *Interp) sqlMatch(t *sqlTable, row sqlRow, where []sqlCond, args []Value) (bool, error) {
	for _, c := range where {
		ci := colIndex(t, c.col)
		if ci < 0 {
			return false, fmt.Errorf("no such column: %s", c.col)
		}
		var cond *Term
		if c.eq != nil {
			cond = in.sqlEq(row[ci], in.sqlEval(*c.eq, args))
		} else {
			cond = in.tt.F
			for _, e := range c.in {
				cond = in.tt.Or(cond, in.sqlEq(row[ci], in.sqlEval(e, args)))
			}
		}
		if !in.branch(cond) {
			return false, nil
		}
	}
	return true, nil
}

// sqlExec runs a parsed statement against st. Returns result rows for
// selects.
func (in *Interp) sqlExec(db *sqlDB, st *sqlState, q *sqlParsed, goArgs []Value) (*sqlRowsH, error) {
	db.stmts++
	db.log = append(db.log, q.kind+" "+q.table)
	if db.crashAt >= 0 && db.stmts-1 == db.crashAt {
		panic(targetPanic{v: Iface{t: types.Typ[types.String], v: concStr(in.tt, "verif: simulated process death")}})
	}
	in.crashTick()
	if db.failAt >= 0 && db.stmts-1 == db.failAt {
		return nil, fmt.Errorf("injected SQL failure at statement %d", db.failAt)
	}
	args := make([]Value, len(goArgs))
	for i, a := range goArgs {
		args[i] = in.sqlBind(a)
	}
	if q.nparams != len(args) && q.kind != "create" && q.kind != "noop" {
		return nil, fmt.Errorf("sql: expected %d arguments, got %d", q.nparams, len(args))
	}
	switch q.kind {
	case "noop":
		return &sqlRowsH{}, nil
	case "create":
		if _, ok := st.tables[q.table]; !ok {
			t := &sqlTable{name: q.table}
			for _, cd := range q.colDefs {
				t.cols = append(t.cols, cd[0])
				t.aff = append(t.aff, cd[1])
			}
			st.tables[q.table] = t
		}
		return &sqlRowsH{}, nil
	case "alter":
		t := st.tables[q.table]
		if t == nil {
			return nil, fmt.Errorf("no such table: %s", q.table)
		}
		if colIndex(t, q.colDefs[0][0]) >= 0 {
			return nil, fmt.Errorf("duplicate column name: %s", q.colDefs[0][0])
		}
		nt := &sqlTable{name: t.name, cols: append(append([]string{}, t.cols...), q.colDefs[0][0]), aff: append(append([]string{}, t.aff...), q.colDefs[0][1])}
		for _, r := range t.rows {
			nt.rows = append(nt.rows, append(append(sqlRow{}, r...), nil))
		}
		st.tables[q.table] = nt
		return &sqlRowsH{}, nil
	}
	if strings.HasPrefix(q.table, "pragma:") {
		// pragma_table_info('t') WHERE name='c' : count of matching columns
		t := st.tables[strings.TrimPrefix(q.table, "pragma:")]
		n := 0
		if t != nil {
			for _, c := range t.cols {
				match := true
				for _, w := range q.where {
					if w.col == "name" && w.eq != nil && w.eq.isLit {
						s, _ := w.eq.lit.(Str).conc()
						match = match && strings.EqualFold(s, c)
					}
				}
				if match {
					n++
				}
			}
		}
		return &sqlRowsH{cols: []string{"count"}, rows: []sqlRow{{sqlInt{in.tt.BV(64, uint64(n))}}}}, nil
	}
	t := st.tables[q.table]
	if t == nil {
		return nil, fmt.Errorf("no such table: %s", q.table)
	}
	switch q.kind {
	case "select":
		var out []sqlRow
		for _, r := range t.rows {
			ok, err := in.sqlMatch(t, r, q.where, args)
			if err != nil {
				return nil, err
			}
			if ok {
				out = append(out, r)
			}
		}
		if q.count {
			return &sqlRowsH{cols: []string{"count"}, rows: []sqlRow{{sqlInt{in.tt.BV(64, uint64(len(out)))}}}}, nil
		}
		cols := q.cols
		if len(cols) == 1 && cols[0] == "*" {
			cols = t.cols
		}
		var idx []int
		for _, c := range cols {
			ci := colIndex(t, c)
			if ci < 0 {
				return nil, fmt.Errorf("no such column: %s", c)
			}
			idx = append(idx, ci)
		}
		res := &sqlRowsH{cols: cols}
		for _, r := range out {
			pr := make(sqlRow, len(idx))
			for i, ci := range idx {
				pr[i] = r[ci]
			}
			res.rows = append(res.rows, pr)
		}
		in.permuteRows(res)
		return res, nil
	case "insert":
		if len(q.values) != len(q.cols) {
			return nil, fmt.Errorf("%d values for %d columns", len(q.values), len(q.cols))
		}
		row := make(sqlRow, len(t.cols))
		for i, c := range q.cols {
			ci := colIndex(t, c)
			if ci < 0 {
				return nil, fmt.Errorf("table %s has no column named %s", t.name, c)
			}
			v := in.sqlEval(q.values[i], args)
			if mp, bad := v.(errMissingParam); bad {
				return nil, fmt.Errorf("missing argument with index %d", mp.n)
			}
			row[ci] = in.sqlStore(t.aff[ci], v)
		}
		// primary key: first column, NOT NULL
		if row[0] == nil {
			return nil, fmt.Errorf("NOT NULL constraint failed: %s.%s", t.name, t.cols[0])
		}
		for ri, r := range t.rows {
			if in.branch(in.sqlEq(r[0], row[0])) {
				if q.conflict == "" {
					return nil, fmt.Errorf("UNIQUE constraint failed: %s.%s", t.name, t.cols[0])
				}
				nr := append(sqlRow{}, r...)
				for _, s := range q.sets {
					ci := colIndex(t, s.col)
					if ci < 0 {
						return nil, fmt.Errorf("no such column: %s", s.col)
					}
					nr[ci] = in.sqlStore(t.aff[ci], in.sqlEval(s.e, args))
				}
				t.rows[ri] = nr
				return &sqlRowsH{}, nil
			}
		}
		t.rows = append(t.rows, row)
		return &sqlRowsH{}, nil
	case "update":
		for ri, r := range t.rows {
			ok, err := in.sqlMatch(t, r, q.where, args)
			if err != nil {
				return nil, err
			}
			if !ok {
				continue
			}
			nr := append(sqlRow{}, r...)
			for _, s := range q.sets {
				ci := colIndex(t, s.col)
				if ci < 0 {
					return nil, fmt.Errorf("no such column: %s", s.col)
				}
				nr[ci] = in.sqlStore(t.aff[ci], in.sqlEval(s.e, args))
			}
			t.rows[ri] = nr
		}
		return &sqlRowsH{}, nil
	case "delete":
		var keep []sqlRow
		for _, r := range t.rows {
			ok, err := in.sqlMatch(t, r, q.where, args)
			if err != nil {
				return nil, err
			}
			if !ok {
				keep = append(keep, r)
			}
		}
		t.rows = keep
		return &sqlRowsH{}, nil
	}
	return nil, fmt.Errorf("unsupported statement kind %s", q.kind)
}

// permuteRows explores result orders (the code has no ORDER BY): all
// permutations up to the "rowperm" parameter, insertion order otherwise.
func (in *Interp) permuteRows(r *sqlRowsH) {
	n := len(r.rows)
	max := in.cfg.Params["rowperm"]
	if n <= 1 || max == 0 || in.path == nil {
		return
	}
	if n <= max {
		rows := append([]sqlRow{}, r.rows...)
		out := make([]sqlRow, 0, n)
		for len(rows) > 0 {
			k := in.choose(len(rows))
			out = append(out, rows[k])
			rows = append(rows[:k], rows[k+1:]...)
		}
		r.rows = out
		return
	}
	k := in.choose(n)
	r.rows = append(append([]sqlRow{}, r.rows[k:]...), r.rows[:k]...)
}

// ---- handles / intrinsics --------------------------------------------------------------

func opaquePtr(kind string, data interface{}) *Value {
	p := new(Value)
	*p = &Opaque{kind: kind, data: data}
	return p
}

func (in *Interp) handle(v Value, kind string) interface{} {
	p, _ := v.(*Value)
	if p == nil {
		in.targetPanic("runtime error: invalid memory address or nil pointer dereference (nil *sql." + kind + ")")
	}
	o, ok := (*p).(*Opaque)
	if !ok || o.kind != kind {
		in.unsupported("sql handle of unexpected kind (want " + kind + ")")
	}
	return o.data
}

func (in *Interp) sqlErr(err error) Value {
	return in.makeError(concStr(in.tt, err.Error()))
}

func (in *Interp) sqlRun(db *sqlDB, tx *sqlTx, text Value, goArgs Value) (*sqlRowsH, error) {
	qs, ok := text.(Str).conc()
	if !ok {
		in.unsupported("SQL text with symbolic bytes")
	}
	q, err := in.sqlParse(qs)
	if err != nil {
		in.unsupported(fmt.Sprintf("SQL statement not modelled (%v): %s", err, strings.Join(strings.Fields(qs), " ")))
	}
	var args []Value
	if sl, ok := goArgs.(Slice); ok && sl.arr != nil {
		args = in.sliceElems(sl)
	}
	return in.sqlRunParsed(db, tx, q, args)
}

func (in *Interp) sqlRunParsed(db *sqlDB, tx *sqlTx, q *sqlParsed, args []Value) (*sqlRowsH, error) {
	st := db.durable
	if tx != nil {
		if tx.done {
			return nil, fmt.Errorf("sql: transaction has already been committed or rolled back")
		}
		st = tx.work
	} else if db.tx != nil && q.kind != "select" && q.kind != "noop" {
		return nil, fmt.Errorf("database is locked (5) (SQLITE_BUSY)")
	}
	return in.sqlExec(db, st, q, args)
}

func (in *Interp) scanInto(dest Value, v Value) error {
	dp, ok := dest.(Iface)
	if !ok || dp.t == nil {
		return fmt.Errorf("sql: Scan destination not a pointer")
	}
	pt, ok := dp.t.Underlying().(*types.Pointer)
	if !ok {
		return fmt.Errorf("sql: Scan destination not a pointer")
	}
	slot := dp.v.(*Value)
	et := pt.Elem()
	tt := in.tt
	switch u := et.Underlying().(type) {
	case *types.Basic:
		switch {
		case u.Info()&types.IsString != 0:
			switch x := v.(type) {
			case Str:
				in.store(slot, x)
				return nil
			case nil:
				return fmt.Errorf("sql: Scan error: converting NULL to string is unsupported")
			case sqlBlob:
				in.store(slot, Str{b: x})
				return nil
			}
			in.unsupported(fmt.Sprintf("Scan of %T into string", v))
		case u.Info()&types.IsInteger != 0:
			x, ok := v.(sqlInt)
			if !ok {
				if v == nil {
					return fmt.Errorf("sql: Scan error: converting NULL to %s is unsupported", et)
				}
				in.unsupported(fmt.Sprintf("Scan of %T into %s", v, et))
			}
			w := basicWidth(u.Kind())
			if w == 64 {
				in.store(slot, x.t)
				return nil
			}
			// range check as database/sql does
			var inRange *Term
			if u.Info()&types.IsUnsigned != 0 {
				inRange = tt.Cmp(OpUlt, x.t, tt.BV(64, uint64(1)<<uint(w)))
			} else {
				lo := tt.BV(64, uint64(-(int64(1) << uint(w-1))))
				hi := tt.BV(64, uint64(int64(1)<<uint(w-1)))
				inRange = tt.And(tt.Cmp(OpSle, lo, x.t), tt.Cmp(OpSlt, x.t, hi))
			}
			if !in.branch(inRange) {
				return fmt.Errorf("sql: Scan error: value out of range for %s", et)
			}
			in.store(slot, tt.Extract(x.t, w-1, 0))
			return nil
		case u.Info()&types.IsFloat != 0:
			var bits *Term
			switch x := v.(type) {
			case sqlReal:
				bits = x.t
			case sqlInt:
				bits = in.conv(types.Typ[types.Float64], types.Typ[types.Int64], x.t).(*Term)
			case nil:
				return fmt.Errorf("sql: Scan error: converting NULL to %s is unsupported", et)
			default:
				in.unsupported(fmt.Sprintf("Scan of %T into float", v))
			}
			if basicWidth(u.Kind()) == 32 {
				in.store(slot, in.conv(types.Typ[types.Float32], types.Typ[types.Float64], bits))
			} else {
				in.store(slot, bits)
			}
			return nil
		case u.Info()&types.IsBoolean != 0:
			x, ok := v.(sqlInt)
			if !ok {
				in.unsupported("Scan into bool")
			}
			in.store(slot, tt.Not(tt.Eq(x.t, tt.BV(64, 0))))
			return nil
		}
	case *types.Slice:
		switch x := v.(type) {
		case nil:
			in.store(slot, Slice{len: in.zero64, cap: in.zero64})
			return nil
		case sqlBlob:
			if len(x) == 0 {
				in.store(slot, Slice{len: in.zero64, cap: in.zero64})
				return nil
			}
			in.store(slot, in.sliceOfBytes(append([]*Term{}, x...)))
			return nil
		case Str:
			in.store(slot, in.sliceOfBytes(append([]*Term{}, x.b...)))
			return nil
		}
	}
	in.unsupported(fmt.Sprintf("Scan of %T into %s", v, et))
	return nil
}

func init() {
	const P = "database/sql."
	errOrNil := func(in *Interp, err error) Value {
		if err != nil {
			return in.sqlErr(err)
		}
		return Iface{}
	}
	intrinsics[P+"Open"] = func(in *Interp, fr *frame, args []Value) Value {
		dsn, _ := args[1].(Str).conc()
		db := &sqlDB{dsn: dsn, durable: &sqlState{tables: map[string]*sqlTable{}}, failAt: -1, crashAt: -1}
		if in.path != nil {
			// one database per file name on a path: re-opening sees the durable state
			key := dsn
			if i := strings.IndexByte(key, '?'); i >= 0 {
				key = key[:i]
			}
			if old, ok := in.path.sqlFiles[key]; ok {
				db.durable = old.durable
				db.log = old.log
			}
			in.path.sqlFiles[key] = db
		}
		return Tuple{opaquePtr("DB", db), Iface{}}
	}
	intrinsics["(*"+P+"DB).Close"] = func(in *Interp, fr *frame, args []Value) Value { return Iface{} }
	intrinsics["(*"+P+"DB).SetMaxOpenConns"] = noop
	intrinsics["(*"+P+"DB).Ping"] = func(in *Interp, fr *frame, args []Value) Value { return Iface{} }
	intrinsics["(*"+P+"DB).Begin"] = func(in *Interp, fr *frame, args []Value) Value {
		db := in.handle(args[0], "DB").(*sqlDB)
		if db.tx != nil {
			// a second writer would wait for the busy timeout and fail
			return Tuple{(*Value)(nil), in.sqlErr(fmt.Errorf("database is locked (transaction left open)"))}
		}
		tx := &sqlTx{db: db, work: db.durable.clone()}
		db.tx = tx
		db.openTx++
		db.log = append(db.log, "begin")
		return Tuple{opaquePtr("Tx", tx), Iface{}}
	}
	intrinsics["(*"+P+"Tx).Commit"] = func(in *Interp, fr *frame, args []Value) Value {
		tx := in.handle(args[0], "Tx").(*sqlTx)
		if tx.done {
			return in.sqlErr(fmt.Errorf("sql: transaction has already been committed or rolled back"))
		}
		db := tx.db
		db.stmts++
		if db.crashAt >= 0 && db.stmts-1 == db.crashAt {
			panic(targetPanic{v: Iface{t: types.Typ[types.String], v: concStr(in.tt, "verif: simulated process death")}})
		}
		in.crashTick()
		if db.failAt >= 0 && db.stmts-1 == db.failAt {
			// a failed commit leaves the transaction rolled back
			tx.done = true
			db.tx = nil
			db.openTx--
			return in.sqlErr(fmt.Errorf("injected commit failure"))
		}
		tx.done = true
		db.durable = tx.work
		db.tx = nil
		db.openTx--
		db.log = append(db.log, "commit")
		return Iface{}
	}
	intrinsics["(*"+P+"Tx).Rollback"] = func(in *Interp, fr *frame, args []Value) Value {
		tx := in.handle(args[0], "Tx").(*sqlTx)
		if tx.done {
			return in.sqlErr(fmt.Errorf("sql: transaction has already been committed or rolled back"))
		}
		tx.done = true
		tx.db.tx = nil
		tx.db.openTx--
		tx.db.log = append(tx.db.log, "rollback")
		return Iface{}
	}
	exec := func(in *Interp, db *sqlDB, tx *sqlTx, text, a Value) Value {
		_, err := in.sqlRun(db, tx, text, a)
		if err != nil {
			return Tuple{Iface{}, in.sqlErr(err)}
		}
		return Tuple{Iface{}, Iface{}}
	}
	query := func(in *Interp, db *sqlDB, tx *sqlTx, text, a Value) Value {
		r, err := in.sqlRun(db, tx, text, a)
		if err != nil {
			return Tuple{(*Value)(nil), in.sqlErr(err)}
		}
		return Tuple{opaquePtr("Rows", r), Iface{}}
	}
	intrinsics["(*"+P+"DB).Exec"] = func(in *Interp, fr *frame, args []Value) Value {
		return exec(in, in.handle(args[0], "DB").(*sqlDB), nil, args[1], args[2])
	}
	intrinsics["(*"+P+"Tx).Exec"] = func(in *Interp, fr *frame, args []Value) Value {
		tx := in.handle(args[0], "Tx").(*sqlTx)
		return exec(in, tx.db, tx, args[1], args[2])
	}
	intrinsics["(*"+P+"DB).Query"] = func(in *Interp, fr *frame, args []Value) Value {
		return query(in, in.handle(args[0], "DB").(*sqlDB), nil, args[1], args[2])
	}
	intrinsics["(*"+P+"Tx).Query"] = func(in *Interp, fr *frame, args []Value) Value {
		tx := in.handle(args[0], "Tx").(*sqlTx)
		return query(in, tx.db, tx, args[1], args[2])
	}
	intrinsics["(*"+P+"DB).QueryRow"] = func(in *Interp, fr *frame, args []Value) Value {
		r, err := in.sqlRun(in.handle(args[0], "DB").(*sqlDB), nil, args[1], args[2])
		return opaquePtr("Row", [2]interface{}{r, err})
	}
	intrinsics["(*"+P+"Tx).QueryRow"] = func(in *Interp, fr *frame, args []Value) Value {
		tx := in.handle(args[0], "Tx").(*sqlTx)
		r, err := in.sqlRun(tx.db, tx, args[1], args[2])
		return opaquePtr("Row", [2]interface{}{r, err})
	}
	intrinsics["(*"+P+"Row).Scan"] = func(in *Interp, fr *frame, args []Value) Value {
		d := in.handle(args[0], "Row").([2]interface{})
		if d[1] != nil {
			return in.sqlErr(d[1].(error))
		}
		r := d[0].(*sqlRowsH)
		if len(r.rows) == 0 {
			return in.sqlErr(fmt.Errorf("sql: no rows in result set"))
		}
		dests := in.sliceElems(args[1].(Slice))
		if len(dests) != len(r.rows[0]) {
			return in.sqlErr(fmt.Errorf("sql: expected %d destination arguments in Scan, not %d", len(r.rows[0]), len(dests)))
		}
		for i, dst := range dests {
			if err := in.scanInto(dst, r.rows[0][i]); err != nil {
				return in.sqlErr(err)
			}
		}
		return Iface{}
	}
	prepare := func(in *Interp, db *sqlDB, tx *sqlTx, text Value) Value {
		qs, ok := text.(Str).conc()
		if !ok {
			in.unsupported("SQL text with symbolic bytes")
		}
		q, err := in.sqlParse(qs)
		if err != nil {
			in.unsupported(fmt.Sprintf("SQL statement not modelled (%v): %s", err, strings.Join(strings.Fields(qs), " ")))
		}
		if tx != nil && tx.done {
			return Tuple{(*Value)(nil), in.sqlErr(fmt.Errorf("sql: transaction has already been committed or rolled back"))}
		}
		return Tuple{opaquePtr("Stmt", &sqlStmtH{tx: tx, db: db, q: q}), Iface{}}
	}
	intrinsics["(*"+P+"Tx).Prepare"] = func(in *Interp, fr *frame, args []Value) Value {
		tx := in.handle(args[0], "Tx").(*sqlTx)
		return prepare(in, tx.db, tx, args[1])
	}
	intrinsics["(*"+P+"DB).Prepare"] = func(in *Interp, fr *frame, args []Value) Value {
		return prepare(in, in.handle(args[0], "DB").(*sqlDB), nil, args[1])
	}
	intrinsics["(*"+P+"Stmt).Exec"] = func(in *Interp, fr *frame, args []Value) Value {
		s := in.handle(args[0], "Stmt").(*sqlStmtH)
		var a []Value
		if sl, ok := args[1].(Slice); ok && sl.arr != nil {
			a = in.sliceElems(sl)
		}
		_, err := in.sqlRunParsed(s.db, s.tx, s.q, a)
		if err != nil {
			return Tuple{Iface{}, in.sqlErr(err)}
		}
		return Tuple{Iface{}, Iface{}}
	}
	intrinsics["(*"+P+"Stmt).Close"] = func(in *Interp, fr *frame, args []Value) Value { return Iface{} }
	intrinsics["(*"+P+"Rows).Next"] = func(in *Interp, fr *frame, args []Value) Value {
		r := in.handle(args[0], "Rows").(*sqlRowsH)
		if r.closed || r.pos >= len(r.rows) {
			r.closed = true
			return in.tt.F
		}
		r.pos++
		return in.tt.T
	}
	intrinsics["(*"+P+"Rows).Close"] = func(in *Interp, fr *frame, args []Value) Value {
		p, _ := args[0].(*Value)
		if p == nil {
			in.targetPanic("runtime error: invalid memory address or nil pointer dereference (nil *sql.Rows)")
		}
		in.handle(args[0], "Rows").(*sqlRowsH).closed = true
		return Iface{}
	}
	intrinsics["(*"+P+"Rows).Err"] = func(in *Interp, fr *frame, args []Value) Value { return Iface{} }
	intrinsics["(*"+P+"Rows).Scan"] = func(in *Interp, fr *frame, args []Value) Value {
		r := in.handle(args[0], "Rows").(*sqlRowsH)
		if r.pos == 0 || r.pos > len(r.rows) {
			return in.sqlErr(fmt.Errorf("sql: Scan called without calling Next"))
		}
		row := r.rows[r.pos-1]
		dests := in.sliceElems(args[1].(Slice))
		if len(dests) != len(row) {
			return in.sqlErr(fmt.Errorf("sql: expected %d destination arguments in Scan, not %d", len(row), len(dests)))
		}
		for i, dst := range dests {
			if err := in.scanInto(dst, row[i]); err != nil {
				return errOrNil(in, fmt.Errorf("sql: Scan error on column index %d, name %q: %v", i, r.cols[i], err))
			}
		}
		return Iface{}
	}

	// uuid / rand ---------------------------------------------------------------
	intrinsics["github.com/google/uuid.New"] = func(in *Interp, fr *frame, args []Value) Value {
		n := 0
		if in.path != nil {
			in.path.uuidCtr++
			n = in.path.uuidCtr
		}
		// a UUID value is [16]byte; carry the counter in it
		arr := make(ArrVal, 16)
		for i := range arr {
			arr[i] = in.tt.BV(8, 0)
		}
		arr[15] = in.tt.BV(8, uint64(n&0xff))
		arr[14] = in.tt.BV(8, uint64(n>>8&0xff))
		arr[0] = in.tt.BV(8, 0xfe) // never equal to a harness-chosen id
		return arr
	}
	intrinsics["(github.com/google/uuid.UUID).String"] = func(in *Interp, fr *frame, args []Value) Value {
		arr := args[0].(ArrVal)
		n := int(arr[15].(*Term).val) | int(arr[14].(*Term).val)<<8
		return concStr(in.tt, fmt.Sprintf("fe000000-0000-4000-8000-%012d", n))
	}
	intrinsics["crypto/rand.Read"] = func(in *Interp, fr *frame, args []Value) Value {
		sl := args[0].(Slice)
		n := 0
		if sl.arr != nil {
			n = in.concLen(sl)
			for i := 0; i < n; i++ {
				var b *Term
				if in.path != nil {
					b = in.freshVar(8)
				} else {
					b = in.tt.BV(8, 0x5a)
				}
				in.storeInto(sl.arr.slot(sl.off+i), b)
			}
		}
		return Tuple{in.tt.BV(64, uint64(n)), Iface{}}
	}

	// harness API ------------------------------------------------------------------
	// vSQLFail(db, k): the k-th statement from now fails; vSQLCrash(db, k): the
	// process dies before the k-th statement from now (k < 0 disables).
	vIntrinsics["vSQLFail"] = func(in *Interp, fr *frame, args []Value) Value {
		db := in.handle(args[0], "DB").(*sqlDB)
		k := args[1].(*Term)
		if k.op != OpConst {
			in.unsupported("vSQLFail with symbolic index")
		}
		db.failAt = -1
		if k.sval() >= 0 {
			db.failAt = db.stmts + int(k.sval())
		}
		return nil
	}
	vIntrinsics["vSQLCrash"] = func(in *Interp, fr *frame, args []Value) Value {
		db := in.handle(args[0], "DB").(*sqlDB)
		k := args[1].(*Term)
		if k.op != OpConst {
			in.unsupported("vSQLCrash with symbolic index")
		}
		db.crashAt = -1
		if k.sval() >= 0 {
			db.crashAt = db.stmts + int(k.sval())
		}
		return nil
	}
	vIntrinsics["vSQLStmts"] = func(in *Interp, fr *frame, args []Value) Value {
		db := in.handle(args[0], "DB").(*sqlDB)
		return in.tt.BV(64, uint64(db.stmts))
	}
	vIntrinsics["vSQLOpenTx"] = func(in *Interp, fr *frame, args []Value) Value {
		db := in.handle(args[0], "DB").(*sqlDB)
		return in.tt.BV(64, uint64(db.openTx))
	}
	vIntrinsics["vTempFile2"] = func(in *Interp, fr *frame, args []Value) Value { return vIntrinsics["vTempFile"](in, fr, args) }
	vIntrinsics["vTempFile"] = func(in *Interp, fr *frame, args []Value) Value {
		n := 0
		if in.path != nil {
			in.path.uuidCtr++
			n = in.path.uuidCtr
		}
		return concStr(in.tt, fmt.Sprintf("/verif-tmp/db%d.sqlite", n))
	}
}

// ---- crash model (C04) ---------------------------------------------------------
//
// vCrashRun(k, f) runs f; once f has called vCrashArm(), the process "dies"
// immediately before the k-th SQL statement or Commit that follows (k < 0:
// never). Everything not committed at that moment is lost; the durable state
// of every database file stays available to a later sql.Open of the same
// file name. Natively f runs in a child process that exits at that point.

type crashDeath struct{}

func (in *Interp) crashTick() {
	p := in.path
	if p == nil || !p.crashArmed {
		return
	}
	if p.crashLeft == 0 {
		p.crashArmed = false
		panic(crashDeath{})
	}
	p.crashLeft--
}

func init() {
	vIntrinsics["vCrashRun"] = func(in *Interp, fr *frame, args []Value) Value {
		k := args[0].(*Term)
		if k.op != OpConst {
			in.unsupported("vCrashRun with symbolic crash point")
		}
		p := in.path
		p.crashK = k.sval()
		p.crashArmed = false
		died := false
		func() {
			defer func() {
				if r := recover(); r != nil {
					if _, ok := r.(crashDeath); ok {
						died = true
						return
					}
					panic(r)
				}
			}()
			in.callFunction(fr, args[1], nil)
		}()
		in.curFrame = fr
		p.crashArmed = false
		// open transactions of the dead process vanish
		for _, db := range p.sqlFiles {
			db.tx = nil
			db.openTx = 0
		}
		return in.tt.Bool(died)
	}
	vIntrinsics["vCrashArm"] = func(in *Interp, fr *frame, args []Value) Value {
		p := in.path
		if p.crashK >= 0 {
			p.crashArmed = true
			p.crashLeft = p.crashK
		}
		return nil
	}
	vIntrinsics["vStash"] = func(in *Interp, fr *frame, args []Value) Value {
		name, _ := args[0].(Str).conc()
		if in.path.stash == nil {
			in.path.stash = map[string]Value{}
		}
		in.path.stash[name] = args[1]
		return nil
	}
	vIntrinsics["vUnstash"] = func(in *Interp, fr *frame, args []Value) Value {
		name, _ := args[0].(Str).conc()
		if v, ok := in.path.stash[name]; ok {
			return v
		}
		return Slice{len: in.zero64, cap: in.zero64}
	}
}
