package main

// github.com/golang-jwt/jwt/v4 by its documented contract (C09 gate):
// jwt.Parse(token, keyFunc) identifies the signing method named in the
// token's header, asks keyFunc for the key (keyFunc may refuse), and reports
// the token valid exactly when the signature verifies with that method and
// key and the standard claims (expiry) hold. Tokens are the structured strings
// made by the harness function vJWT(alg, keyOK, expired, jti, key); the
// cryptography itself (HMAC-SHA2, base64, JSON) is outside the engine.

import (
	"fmt"
	"go/types"
)

const jwtPkg = "github.com/golang-jwt/jwt/v4"

func (in *Interp) jwtType(name string) types.Type {
	pkg := in.prog.ImportedPackage(jwtPkg)
	if pkg == nil {
		in.unsupported("jwt package not loaded")
	}
	m := pkg.Type(name)
	if m == nil {
		in.unsupported("jwt type " + name + " not found")
	}
	return m.Object().Type()
}

func init() {
	// vJWT(alg int, keyOK, expired, jti bool, key []byte) string
	vIntrinsics["vJWT"] = func(in *Interp, fr *frame, args []Value) Value {
		out := "jwt"
		for i := 0; i < 4; i++ {
			t := args[i].(*Term)
			if t.op != OpConst {
				in.unsupported("vJWT with symbolic arguments (draw them with vChoose)")
			}
			switch {
			case t.IsTrue():
				out += ".1"
			case t.IsFalse():
				out += ".0"
			default:
				out += fmt.Sprintf(".%d", t.val)
			}
		}
		return concStr(in.tt, out)
	}
	intrinsics[jwtPkg+".Parse"] = func(in *Interp, fr *frame, args []Value) Value {
		tt := in.tt
		s, _ := args[0].(Str)
		tokT := in.jwtType("Token")
		tok := in.zero(tokT).(Struct)
		st := tokT.Underlying().(*types.Struct)
		set := func(name string, v Value) {
			for i := 0; i < st.NumFields(); i++ {
				if st.Field(i).Name() == name {
					tok[i] = v
				}
			}
		}
		tp := new(Value)
		cs, conc := s.conc()
		var f [4]int
		if n, _ := fmt.Sscanf(cs, "jwt.%d.%d.%d.%d", &f[0], &f[1], &f[2], &f[3]); !conc || n != 4 {
			// not a token at all
			*tp = tok
			return Tuple{tp, in.makeError(concStr(tt, "token contains an invalid number of segments"))}
		}
		alg := f[0]
		keyOK, expired, hasJti := tt.Bool(f[1] != 0), tt.Bool(f[2] != 0), tt.Bool(f[3] != 0)
		names := []string{"HS256", "HS384", "HS512", "none"}
		var method Value
		if alg <= 2 {
			mt := in.jwtType("SigningMethodHMAC")
			mv := in.zero(mt).(Struct)
			mst := mt.Underlying().(*types.Struct)
			for i := 0; i < mst.NumFields(); i++ {
				if mst.Field(i).Name() == "Name" {
					mv[i] = concStr(tt, names[alg])
				}
			}
			mp := new(Value)
			*mp = mv
			method = Iface{t: types.NewPointer(mt), v: mp}
		} else {
			mt := in.jwtType("signingMethodNone")
			mp := new(Value)
			*mp = in.zero(mt)
			method = Iface{t: types.NewPointer(mt), v: mp}
		}
		set("Raw", s)
		set("Method", method)
		// claims: jti (when present) and the rest
		claimsT := in.jwtType("MapClaims")
		cm := in.newMap(types.Typ[types.String])
		if in.branch(hasJti) {
			in.mapInsert(cm, concStr(tt, "jti"), Iface{t: types.Typ[types.String], v: concStr(tt, "u1")})
		}
		in.mapInsert(cm, concStr(tt, "iss"), Iface{t: types.Typ[types.String], v: concStr(tt, "simpleiot")})
		set("Claims", Iface{t: claimsT, v: cm})
		*tp = tok
		// the key function may refuse the token
		kr := in.callFunction(fr, args[1], []Value{tp}).(Tuple)
		in.curFrame = fr
		if e, ok := kr[1].(Iface); ok && e.t != nil {
			return Tuple{tp, in.makeError(concStr(tt, "key function refused the token"))}
		}
		if alg == 3 {
			// 'none' verifies only with the magic constant as key
			return Tuple{tp, in.makeError(concStr(tt, "'none' signature type is not allowed"))}
		}
		valid := tt.And(keyOK, tt.Not(expired))
		if in.branch(valid) {
			cur := (*tp).(Struct)
			for i := 0; i < st.NumFields(); i++ {
				if st.Field(i).Name() == "Valid" {
					cur[i] = tt.T
				}
			}
			*tp = cur
			return Tuple{tp, Iface{}}
		}
		return Tuple{tp, in.makeError(concStr(tt, "signature is invalid or token is expired"))}
	}
	intrinsics["(*"+jwtPkg+".SigningMethodHMAC).Alg"] = func(in *Interp, fr *frame, args []Value) Value {
		p, _ := args[0].(*Value)
		if p == nil {
			in.targetPanic("runtime error: invalid memory address or nil pointer dereference")
		}
		mt := in.jwtType("SigningMethodHMAC").Underlying().(*types.Struct)
		s := (*p).(Struct)
		for i := 0; i < mt.NumFields(); i++ {
			if mt.Field(i).Name() == "Name" {
				return s[i]
			}
		}
		return concStr(in.tt, "")
	}
	intrinsics["(*"+jwtPkg+".signingMethodNone).Alg"] = func(in *Interp, fr *frame, args []Value) Value {
		return concStr(in.tt, "none")
	}
}
