package main

// If-conversion ("speculation"): a symbolic branch whose sides are short
// straight-line blocks rejoining immediately is executed on both sides and
// merged with ite terms instead of forking the path. Any effect that cannot
// be merged (calls, non-scalar stores, unforced inner checks, panics) aborts
// the attempt and the branch is forked normally. The outcome of the attempt
// and the directions of inner forced checks are recorded in the decision
// vector so that replays need no solver queries.

import (
	"golang.org/x/tools/go/ssa"
)

type specCtx struct {
	cond   *Term
	replay bool
}

type specAbort struct{}

var simpleBlockCache = map[*ssa.BasicBlock]bool{}

func isSimpleSide(b *ssa.BasicBlock) bool {
	n := len(b.Instrs)
	if n == 0 || n > 24 {
		return false
	}
	if _, ok := b.Instrs[n-1].(*ssa.Jump); !ok {
		return false
	}
	for _, ins := range b.Instrs[:n-1] {
		switch i := ins.(type) {
		case *ssa.UnOp:
			if i.Op.String() == "<-" {
				return false
			}
		case *ssa.BinOp, *ssa.Convert, *ssa.ChangeType, *ssa.IndexAddr, *ssa.FieldAddr, *ssa.Field,
			*ssa.Index, *ssa.Store, *ssa.DebugRef, *ssa.MakeInterface, *ssa.Extract, *ssa.ChangeInterface:
		default:
			return false
		}
	}
	return true
}

func (in *Interp) simpleSide(b *ssa.BasicBlock) bool {
	if v, ok := in.simpleBlocks[b]; ok {
		return v
	}
	v := isSimpleSide(b)
	in.simpleBlocks[b] = v
	return v
}

// mergeVal builds ite(c, a, b) for mergeable values.
func (in *Interp) mergeVal(c *Term, a, b Value) (Value, bool) {
	switch av := a.(type) {
	case *Term:
		bv, ok := b.(*Term)
		if !ok || av.w != bv.w {
			return nil, false
		}
		return in.tt.Ite(c, av, bv), true
	case Str:
		bv, ok := b.(Str)
		if !ok || len(av.b) != len(bv.b) {
			return nil, false
		}
		out := make([]*Term, len(av.b))
		for i := range out {
			out[i] = in.tt.Ite(c, av.b[i], bv.b[i])
		}
		return Str{b: out}, true
	case Struct:
		bv, ok := b.(Struct)
		if !ok || len(av) != len(bv) {
			return nil, false
		}
		// instants with calendar parts are keyed by an identity variable:
		// merge the parts, not the keys
		if len(av) == 3 && in.path != nil {
			pa, pb := in.partsOf(av), in.partsOf(bv)
			if pa != nil || pb != nil {
				if pa == nil || pb == nil || pa.day != pb.day || av[2] != bv[2] {
					return nil, false
				}
				w1, ok1 := av[0].(*Term)
				w2, ok2 := bv[0].(*Term)
				if !ok1 || !ok2 || w1 != w2 {
					return nil, false
				}
				return in.newPartsTime(&tparts{day: pa.day, sec: in.tt.Ite(c, pa.sec, pb.sec), ns: in.tt.Ite(c, pa.ns, pb.ns)}, av[2]), true
			}
		}
		out := make(Struct, len(av))
		for i := range av {
			m, ok := in.mergeVal(c, av[i], bv[i])
			if !ok {
				return nil, false
			}
			out[i] = m
		}
		return out, true
	case ArrVal:
		bv, ok := b.(ArrVal)
		if !ok || len(av) != len(bv) {
			return nil, false
		}
		out := make(ArrVal, len(av))
		for i := range av {
			m, ok := in.mergeVal(c, av[i], bv[i])
			if !ok {
				return nil, false
			}
			out[i] = m
		}
		return out, true
	case *Value:
		if bv, ok := b.(*Value); ok && av == bv {
			return a, true
		}
	case Iface:
		bv, ok := b.(Iface)
		if !ok {
			return nil, false
		}
		if av.t == nil && bv.t == nil {
			return a, true
		}
		if av.t != nil && bv.t != nil && (av.t == bv.t) {
			m, ok := in.mergeVal(c, av.v, bv.v)
			if ok {
				return Iface{t: av.t, v: m}, true
			}
		}
	case Slice:
		if bv, ok := b.(Slice); ok && av.arr == bv.arr && av.off == bv.off {
			return Slice{arr: av.arr, off: av.off, len: in.tt.Ite(c, av.len, bv.len), cap: in.tt.Ite(c, av.cap, bv.cap)}, true
		}
	case *Map:
		if bv, ok := b.(*Map); ok && av == bv {
			return a, true
		}
	case nil:
		if b == nil {
			return nil, true
		}
	}
	return nil, false
}

// trySpeculate attempts if-conversion of the branch instr on cond c.
func (in *Interp) trySpeculate(fr *frame, instr *ssa.If, c *Term) bool {
	if in.noSpec {
		return false
	}
	blk := fr.block
	T, F := blk.Succs[0], blk.Succs[1]
	type side struct {
		b    *ssa.BasicBlock
		cond *Term
	}
	var sides []side
	var join, predT, predF *ssa.BasicBlock
	jumpsTo := func(b, to *ssa.BasicBlock) bool {
		return len(b.Succs) == 1 && b.Succs[0] == to
	}
	switch {
	case len(T.Preds) == 1 && jumpsTo(T, F) && T != F && in.simpleSide(T):
		join, predT, predF = F, T, blk
		sides = []side{{T, c}}
	case len(F.Preds) == 1 && jumpsTo(F, T) && T != F && in.simpleSide(F):
		join, predT, predF = T, blk, F
		sides = []side{{F, in.tt.Not(c)}}
	case len(T.Preds) == 1 && len(F.Preds) == 1 && len(T.Succs) == 1 && len(F.Succs) == 1 && T.Succs[0] == F.Succs[0] && T != F &&
		in.simpleSide(T) && in.simpleSide(F):
		join, predT, predF = T.Succs[0], T, F
		sides = []side{{T, c}, {F, in.tt.Not(c)}}
	default:
		return false
	}
	p := in.path
	replay := false
	if p.pos < len(p.prefix) {
		d := p.prefix[p.pos]
		p.pos++
		p.decisions = append(p.decisions, Decision{Val: d.Val})
		if d.Val == 0 {
			return false
		}
		replay = true
	}
	markDec := len(p.decisions)
	if !replay {
		p.decisions = append(p.decisions, Decision{Val: 1})
	}
	markJ := len(in.journal)
	markPos := p.pos
	ok := func() (ok bool) {
		defer func() {
			if r := recover(); r != nil {
				in.spec = nil
				switch r.(type) {
				case specAbort, targetPanic:
					ok = false
					return
				}
				panic(r)
			}
		}()
		for _, s := range sides {
			in.spec = &specCtx{cond: s.cond, replay: replay}
			for _, ins := range s.b.Instrs[:len(s.b.Instrs)-1] {
				fr.curInstr = ins
				in.stats.instrs++
				in.visitInstr(fr, ins)
			}
			in.spec = nil
		}
		// merge phis of the join
		var vals []Value
		var phis []*ssa.Phi
		iT, iF := -1, -1
		for i, pb := range join.Preds {
			if pb == predT {
				iT = i
			}
			if pb == predF {
				iF = i
			}
		}
		for _, ins := range join.Instrs {
			phi, isPhi := ins.(*ssa.Phi)
			if !isPhi {
				break
			}
			vt, vf := fr.get(phi.Edges[iT]), fr.get(phi.Edges[iF])
			m, mok := in.mergeVal(c, vt, vf)
			if !mok {
				panic(specAbort{})
			}
			phis = append(phis, phi)
			vals = append(vals, m)
		}
		for i, phi := range phis {
			fr.set(phi, vals[i])
		}
		return true
	}()
	in.spec = nil
	if !ok {
		if replay {
			in.unsupported("speculation replay diverged")
		}
		// undo partial effects
		for i := len(in.journal) - 1; i >= markJ; i-- {
			e := in.journal[i]
			if e.undo != nil {
				e.undo()
			} else {
				*e.addr = e.old
			}
		}
		in.journal = in.journal[:markJ]
		p.decisions = append(p.decisions[:markDec], Decision{Val: 0})
		p.pos = markPos
		return false
	}
	in.stats.merges++
	fr.prev, fr.block = predT, join
	fr.phisDone = true
	return true
}

// specBranch decides an inner check during speculation: it must be forced
// under the side condition, otherwise the speculation is abandoned.
func (in *Interp) specBranch(c *Term) bool {
	p := in.path
	if in.spec.replay {
		if p.pos >= len(p.prefix) {
			in.unsupported("speculation replay ran out of decisions")
		}
		d := p.prefix[p.pos]
		p.pos++
		p.decisions = append(p.decisions, Decision{Val: d.Val})
		return d.Val == 1
	}
	sc := in.spec.cond
	in.spec = nil // allow the queries below to use the normal machinery
	r1, _ := in.check(in.tt.And(sc, c), nil)
	var dir bool
	if r1 == "unsat" {
		dir = false
	} else {
		r2, _ := in.check(in.tt.And(sc, in.tt.Not(c)), nil)
		if r2 != "unsat" {
			panic(specAbort{})
		}
		dir = true
	}
	in.spec = &specCtx{cond: sc}
	v := uint64(0)
	if dir {
		v = 1
	}
	p.decisions = append(p.decisions, Decision{Val: v})
	return dir
}
