package main

// internal/bytealg kernels (assembly in the real runtime) as engine loops over
// byte terms: every comparison with a symbolic byte is a fork.

func (in *Interp) byteSeq(v Value) []*Term {
	switch x := v.(type) {
	case Str:
		return x.b
	case Slice:
		if x.arr == nil {
			return nil
		}
		return in.bytesOfSlice(x)
	}
	in.unsupported("byte sequence expected")
	return nil
}

func init() {
	indexByte := func(in *Interp, fr *frame, args []Value) Value {
		b := in.byteSeq(args[0])
		c := args[1].(*Term)
		for i, x := range b {
			if in.branch(in.tt.Eq(x, c)) {
				return in.tt.BV(64, uint64(i))
			}
		}
		return in.tt.BV(64, ^uint64(0))
	}
	intrinsics["internal/bytealg.IndexByte"] = indexByte
	intrinsics["internal/bytealg.IndexByteString"] = indexByte
	lastIndexByte := func(in *Interp, fr *frame, args []Value) Value {
		b := in.byteSeq(args[0])
		c := args[1].(*Term)
		for i := len(b) - 1; i >= 0; i-- {
			if in.branch(in.tt.Eq(b[i], c)) {
				return in.tt.BV(64, uint64(i))
			}
		}
		return in.tt.BV(64, ^uint64(0))
	}
	intrinsics["internal/bytealg.LastIndexByte"] = lastIndexByte
	intrinsics["internal/bytealg.LastIndexByteString"] = lastIndexByte
	count := func(in *Interp, fr *frame, args []Value) Value {
		b := in.byteSeq(args[0])
		c := args[1].(*Term)
		n := 0
		for _, x := range b {
			if in.branch(in.tt.Eq(x, c)) {
				n++
			}
		}
		return in.tt.BV(64, uint64(n))
	}
	intrinsics["internal/bytealg.Count"] = count
	intrinsics["internal/bytealg.CountString"] = count
	intrinsics["internal/bytealg.Equal"] = func(in *Interp, fr *frame, args []Value) Value {
		a, b := in.byteSeq(args[0]), in.byteSeq(args[1])
		return in.strEq(Str{b: a}, Str{b: b})
	}
	index := func(in *Interp, fr *frame, args []Value) Value {
		a, b := in.byteSeq(args[0]), in.byteSeq(args[1])
		for i := 0; i+len(b) <= len(a); i++ {
			if in.branch(in.strEq(Str{b: a[i : i+len(b)]}, Str{b: b})) {
				return in.tt.BV(64, uint64(i))
			}
		}
		return in.tt.BV(64, ^uint64(0))
	}
	intrinsics["internal/bytealg.Index"] = index
	intrinsics["internal/bytealg.IndexString"] = index
	intrinsics["internal/bytealg.Compare"] = func(in *Interp, fr *frame, args []Value) Value {
		a, b := Str{b: in.byteSeq(args[0])}, Str{b: in.byteSeq(args[1])}
		tt := in.tt
		lt := in.strLess(a, b, false)
		eq := in.strEq(a, b)
		return tt.Ite(lt, tt.BV(64, ^uint64(0)), tt.Ite(eq, tt.BV(64, 0), tt.BV(64, 1)))
	}
	intrinsics["internal/bytealg.MakeNoZero"] = func(in *Interp, fr *frame, args []Value) Value {
		n := args[0].(*Term)
		if n.op != OpConst {
			in.unsupported("MakeNoZero with symbolic length")
		}
		bs := make([]*Term, n.val)
		for i := range bs {
			bs[i] = in.tt.BV(8, 0)
		}
		return in.sliceOfBytes(bs)
	}
	intrinsics["internal/bytealg.Cutover"] = func(in *Interp, fr *frame, args []Value) Value {
		return in.tt.BV(64, 1<<30)
	}
	// strings.Builder is real SSA except for its unsafe tricks
	intrinsics["(*strings.Builder).String"] = func(in *Interp, fr *frame, args []Value) Value {
		p := args[0].(*Value)
		s := (*p).(Struct)
		// fields: addr *Builder, buf []byte
		buf := s[1].(Slice)
		if buf.arr == nil {
			return Str{}
		}
		return Str{b: in.bytesOfSlice(buf)}
	}
	intrinsics["(*strings.Builder).copyCheck"] = noop
	intrinsics["internal/stringslite.Clone"] = func(in *Interp, fr *frame, args []Value) Value { return args[0] }
	intrinsics["strings.Clone"] = func(in *Interp, fr *frame, args []Value) Value { return args[0] }
	intrinsics["unsafe.String"] = func(in *Interp, fr *frame, args []Value) Value {
		in.unsupported("unsafe.String")
		return nil
	}
}
