package main

import (
	"bufio"
	"fmt"
	"io"
	"os"
	"os/exec"
	"strconv"
	"strings"
	"time"
)

var slowQ = func() time.Duration {
	if v := os.Getenv("GOSYM_SLOWQ"); v != "" {
		n, _ := strconv.Atoi(v)
		return time.Duration(n) * time.Millisecond
	}
	return 0
}()

// Solver wraps one live SMT solver process speaking SMT-LIB2 on stdin/stdout.
type Solver struct {
	kind string
	cmd  *exec.Cmd
	in   *bufio.Writer
	inc  io.WriteCloser
	out  *bufio.Reader
	log  *os.File

	// per path scope
	defined  map[*Term]bool
	declared map[string]bool
	open     bool
	eqStyle  bool

	Queries  int
	Sat      int
	Unsat    int
	Unknown  int
	Errors   int
	Time     time.Duration
	LastErr  string
	MaxQuery time.Duration
}

func solverArgv(kind string, timeoutMs int) []string {
	switch kind {
	case "z3":
		return []string{"z3", "-in", fmt.Sprintf("-t:%d", timeoutMs)}
	case "z3-new":
		return []string{"z3-new", "-in", fmt.Sprintf("-t:%d", timeoutMs)}
	case "cvc5":
		return []string{"cvc5", "--incremental", "--produce-models", "--lang=smt2", fmt.Sprintf("--tlimit-per=%d", timeoutMs)}
	}
	panic("unknown solver " + kind)
}

func NewSolver(kind string, timeoutMs int, logPath string) (*Solver, error) {
	argv := solverArgv(kind, timeoutMs)
	cmd := exec.Command(argv[0], argv[1:]...)
	inp, err := cmd.StdinPipe()
	if err != nil {
		return nil, err
	}
	outp, err := cmd.StdoutPipe()
	if err != nil {
		return nil, err
	}
	cmd.Stderr = cmd.Stdout
	if err := cmd.Start(); err != nil {
		return nil, err
	}
	s := &Solver{kind: kind, cmd: cmd, inc: inp, in: bufio.NewWriterSize(inp, 1<<16), out: bufio.NewReaderSize(outp, 1<<16)}
	if logPath != "" {
		s.log, _ = os.Create(logPath)
	}
	s.raw("(set-option :produce-models true)\n")
	if kind != "cvc5" {
		s.raw("(set-option :pp.bv_literals true)\n")
	} else {
		s.raw("(set-logic ALL)\n")
	}
	s.defined = map[*Term]bool{}
	s.declared = map[string]bool{}
	s.eqStyle = os.Getenv("GOSYM_DEFSTYLE") == "assert"
	return s, nil
}

func (s *Solver) raw(str string) {
	s.in.WriteString(str)
	if s.log != nil {
		s.log.WriteString(str)
	}
}

func (s *Solver) Close() {
	if s == nil || s.cmd == nil {
		return
	}
	s.raw("(exit)\n")
	s.in.Flush()
	s.inc.Close()
	done := make(chan struct{})
	go func() { s.cmd.Wait(); close(done) }()
	select {
	case <-done:
	case <-time.After(2 * time.Second):
		s.cmd.Process.Kill()
	}
	if s.log != nil {
		s.log.Close()
	}
}

// BeginPath opens a fresh scope.
func (s *Solver) BeginPath() {
	if s.open {
		s.EndPath()
	}
	s.raw("(push 1)\n")
	s.open = true
}

func (s *Solver) EndPath() {
	if !s.open {
		return
	}
	s.raw("(pop 1)\n")
	s.open = false
	for k := range s.defined {
		delete(s.defined, k)
	}
	for k := range s.declared {
		delete(s.declared, k)
	}
}

func (s *Solver) ref(t *Term) string {
	switch t.op {
	case OpConst:
		return constStr(t)
	case OpVar:
		return t.name
	case OpApp:
		if len(t.args) == 0 {
			return t.name
		}
	}
	return "t" + strconv.Itoa(t.id)
}

// define emits declarations/definitions for t's DAG at the current (path)
// scope, iteratively to survive deep terms.
func (s *Solver) define(root *Term) {
	type fr struct {
		t *Term
		i int
	}
	if s.defined[root] {
		return
	}
	stack := []fr{{root, 0}}
	for len(stack) > 0 {
		f := &stack[len(stack)-1]
		t := f.t
		if s.defined[t] {
			stack = stack[:len(stack)-1]
			continue
		}
		if f.i < len(t.args) {
			a := t.args[f.i]
			f.i++
			if !s.defined[a] {
				stack = append(stack, fr{a, 0})
			}
			continue
		}
		stack = stack[:len(stack)-1]
		s.defined[t] = true
		switch t.op {
		case OpConst:
		case OpVar:
			if !s.declared[t.name] {
				s.declared[t.name] = true
				s.raw("(declare-const " + t.name + " " + sortStr(t.w) + ")\n")
			}
		default:
			var sb strings.Builder
			switch t.op {
			case OpApp:
				if !s.declared[t.name] {
					s.declared[t.name] = true
					sb.WriteString("(declare-fun " + t.name + " (")
					for _, a := range t.args {
						sb.WriteString(sortStr(a.w) + " ")
					}
					sb.WriteString(") " + sortStr(t.w) + ")\n")
				}
				if len(t.args) == 0 {
					s.raw(sb.String())
					continue
				}
			}
			if s.eqStyle {
				sb.WriteString("(declare-const t" + strconv.Itoa(t.id) + " " + sortStr(t.w) + ")\n(assert (= t" + strconv.Itoa(t.id) + " ")
			} else {
				sb.WriteString("(define-fun t" + strconv.Itoa(t.id) + " () " + sortStr(t.w) + " ")
			}
			switch t.op {
			case OpExtract:
				fmt.Fprintf(&sb, "((_ extract %d %d) %s)", t.val>>8, t.val&0xff, s.ref(t.args[0]))
			case OpZext:
				fmt.Fprintf(&sb, "((_ zero_extend %d) %s)", t.w-t.args[0].w, s.ref(t.args[0]))
			case OpSext:
				fmt.Fprintf(&sb, "((_ sign_extend %d) %s)", t.w-t.args[0].w, s.ref(t.args[0]))
			case OpRaw:
				str := t.name
				for i := len(t.args) - 1; i >= 0; i-- {
					str = strings.ReplaceAll(str, "%"+strconv.Itoa(i), s.ref(t.args[i]))
				}
				sb.WriteString(str)
			case OpApp:
				sb.WriteString("(" + t.name)
				for _, a := range t.args {
					sb.WriteString(" " + s.ref(a))
				}
				sb.WriteString(")")
			default:
				sb.WriteString("(" + opName[t.op])
				for _, a := range t.args {
					sb.WriteString(" " + s.ref(a))
				}
				sb.WriteString(")")
			}
			if s.eqStyle {
				sb.WriteString(")")
			}
			sb.WriteString(")\n")
			s.raw(sb.String())
		}
	}
}

// Assert adds t at path scope.
func (s *Solver) Assert(t *Term) {
	s.define(t)
	s.raw("(assert " + s.ref(t) + ")\n")
}

func (s *Solver) readLine() string {
	for {
		line, err := s.out.ReadString('\n')
		if err != nil {
			s.LastErr = "solver died: " + err.Error()
			return "error"
		}
		line = strings.TrimSpace(line)
		if line == "" {
			continue
		}
		if s.log != nil {
			s.log.WriteString("; <- " + line + "\n")
		}
		return line
	}
}

// Check asks whether path-scope assertions plus extra are satisfiable. When
// wantModel lists terms (vars), their values are returned on sat.
func (s *Solver) Check(extra *Term, model []*Term) (res string, vals map[string]uint64) {
	start := time.Now()
	if extra != nil {
		s.define(extra)
	}
	for _, m := range model {
		s.define(m)
	}
	s.raw("(push 1)\n")
	if extra != nil {
		s.raw("(assert " + s.ref(extra) + ")\n")
	}
	s.raw("(check-sat)\n")
	s.in.Flush()
	res = s.readLine()
	s.Queries++
	switch {
	case res == "sat":
		s.Sat++
		if len(model) > 0 {
			vals = s.getValues(model)
		}
	case res == "unsat":
		s.Unsat++
	case res == "unknown" || res == "timeout":
		res = "unknown"
		s.Unknown++
	default:
		s.Errors++
		s.LastErr = res
		// drain any further error text is not possible reliably; mark
		res = "error"
	}
	s.raw("(pop 1)\n")
	d := time.Since(start)
	if slowQ > 0 && d > slowQ && extra != nil {
		str := extra.String()
		if len(str) > 600 {
			str = str[:600]
		}
		fmt.Fprintf(os.Stderr, "SLOWQ %.2fs %s defs=%d : %s\n", d.Seconds(), res, len(s.defined), str)
	}
	s.Time += d
	if d > s.MaxQuery {
		s.MaxQuery = d
	}
	return
}

func (s *Solver) getValues(model []*Term) map[string]uint64 {
	vals := map[string]uint64{}
	// chunk to keep lines reasonable
	for i := 0; i < len(model); i += 64 {
		j := i + 64
		if j > len(model) {
			j = len(model)
		}
		var sb strings.Builder
		sb.WriteString("(get-value (")
		for _, m := range model[i:j] {
			sb.WriteString(s.ref(m) + " ")
		}
		sb.WriteString("))\n")
		s.raw(sb.String())
		s.in.Flush()
		// read a balanced s-expression
		text := s.readSexp()
		parseValues(text, model[i:j], s, vals)
	}
	return vals
}

func (s *Solver) readSexp() string {
	var sb strings.Builder
	depth := 0
	started := false
	for {
		line, err := s.out.ReadString('\n')
		if err != nil {
			return sb.String()
		}
		if s.log != nil {
			s.log.WriteString("; <- " + line)
		}
		for _, c := range line {
			if c == '(' {
				depth++
				started = true
			} else if c == ')' {
				depth--
			}
		}
		sb.WriteString(line)
		if started && depth <= 0 {
			return sb.String()
		}
	}
}

// parseValues parses "((name val) (name val) ...)" in order of model.
func parseValues(text string, model []*Term, s *Solver, out map[string]uint64) {
	toks := tokenize(text)
	// expect ( ( name val ) ... )
	i := 0
	if i < len(toks) && toks[i] == "(" {
		i++
	}
	for _, m := range model {
		if i >= len(toks) || toks[i] != "(" {
			return
		}
		i++
		// name may itself be an s-expr? refs are atoms here.
		i++ // name
		// value: atom or (_ bvN w)
		var v uint64
		if toks[i] == "(" {
			// (_ bv123 8)
			if i+3 < len(toks) && toks[i+1] == "_" && strings.HasPrefix(toks[i+2], "bv") {
				v, _ = strconv.ParseUint(toks[i+2][2:], 10, 64)
			}
			d := 0
			for i < len(toks) {
				if toks[i] == "(" {
					d++
				} else if toks[i] == ")" {
					d--
					if d == 0 {
						i++
						break
					}
				}
				i++
			}
		} else {
			a := toks[i]
			i++
			switch {
			case a == "true":
				v = 1
			case a == "false":
				v = 0
			case strings.HasPrefix(a, "#x"):
				v, _ = strconv.ParseUint(a[2:], 16, 64)
			case strings.HasPrefix(a, "#b"):
				v, _ = strconv.ParseUint(a[2:], 2, 64)
			}
		}
		if i < len(toks) && toks[i] == ")" {
			i++
		}
		out[s.ref(m)] = v
	}
}

func tokenize(text string) []string {
	var toks []string
	cur := strings.Builder{}
	flush := func() {
		if cur.Len() > 0 {
			toks = append(toks, cur.String())
			cur.Reset()
		}
	}
	for _, c := range text {
		switch c {
		case '(', ')':
			flush()
			toks = append(toks, string(c))
		case ' ', '\n', '\t', '\r':
			flush()
		default:
			cur.WriteRune(c)
		}
	}
	flush()
	return toks
}
