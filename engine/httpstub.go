package main

// net/http layer used by the C09 gate harness: Header accessors with Go's
// canonical key form, and http.Error reproduced against the harness's own
// ResponseWriter. Nothing else of net/http is modelled (server, transport,
// request parsing are outside the engine's reach).

import (
	"go/types"
	"net/textproto"
)

func (in *Interp) httpKey(v Value) Value {
	k, ok := v.(Str).conc()
	if !ok {
		in.unsupported("net/http.Header access with a symbolic key")
	}
	return concStr(in.tt, textproto.CanonicalMIMEHeaderKey(k))
}

func (in *Interp) httpHeaderMap(v Value) *Map {
	m, _ := v.(*Map)
	return m
}

// invokeMethod calls the method name of the dynamic type of an interface value.
func (in *Interp) invokeMethod(fr *frame, recv Value, name string, args ...Value) Value {
	ifc, ok := recv.(Iface)
	if !ok || ifc.t == nil {
		in.targetPanic("runtime error: invalid memory address or nil pointer dereference")
	}
	f := in.findMethod(ifc.t, name)
	if f == nil {
		in.unsupported("method " + name + " not found on " + ifc.t.String())
	}
	return in.callFunction(fr, f, append([]Value{ifc.v}, args...))
}

func init() {
	get := func(in *Interp, fr *frame, args []Value) Value {
		m := in.httpHeaderMap(args[0])
		if m == nil {
			return concStr(in.tt, "")
		}
		e := in.mapFind(m, in.httpKey(args[1]))
		if e == nil {
			return concStr(in.tt, "")
		}
		sl := e.v.(Slice)
		if sl.arr == nil || in.concLen(sl) == 0 {
			return concStr(in.tt, "")
		}
		return in.sliceElems(sl)[0]
	}
	set := func(in *Interp, fr *frame, args []Value) Value {
		m := in.httpHeaderMap(args[0])
		if m == nil {
			in.targetPanic("assignment to entry in nil map")
		}
		str := types.Typ[types.String]
		in.mapInsert(m, in.httpKey(args[1]), in.sliceOfValues([]Value{args[2]}, func() Value { return in.zero(str) }))
		return nil
	}
	del := func(in *Interp, fr *frame, args []Value) Value {
		in.mapDelete(in.httpHeaderMap(args[0]), in.httpKey(args[1]))
		return nil
	}
	intrinsics["(net/http.Header).Get"] = get
	intrinsics["(net/http.Header).Set"] = set
	intrinsics["(net/http.Header).Del"] = del
	intrinsics["(net/textproto.MIMEHeader).Get"] = get
	intrinsics["(net/textproto.MIMEHeader).Set"] = set
	intrinsics["(net/textproto.MIMEHeader).Del"] = del

	// func Error(w ResponseWriter, error string, code int)
	intrinsics["net/http.Error"] = func(in *Interp, fr *frame, args []Value) Value {
		w := args[0]
		h := in.invokeMethod(fr, w, "Header")
		if m := in.httpHeaderMap(h); m != nil {
			str := types.Typ[types.String]
			one := func(s string) Value {
				return in.sliceOfValues([]Value{concStr(in.tt, s)}, func() Value { return in.zero(str) })
			}
			in.mapDelete(m, concStr(in.tt, "Content-Length"))
			in.mapInsert(m, concStr(in.tt, "Content-Type"), one("text/plain; charset=utf-8"))
			in.mapInsert(m, concStr(in.tt, "X-Content-Type-Options"), one("nosniff"))
		}
		in.invokeMethod(fr, w, "WriteHeader", args[2])
		msg := args[1].(Str)
		body := append(append([]*Term{}, msg.b...), in.tt.BV(8, '\n'))
		in.invokeMethod(fr, w, "Write", in.sliceOfBytes(body))
		in.curFrame = fr
		return nil
	}
}
