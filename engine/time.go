package main

// Abstract model of time.Time (DESIGN.md section 3.2). A time.Time value keeps
// its real three-field layout {wall uint64, ext int64, loc *Location} but the
// engine gives the fields its own meaning:
//
//	wall = 0  and ext = 0   the zero Time (year 1), below every other instant
//	wall = 1                a set instant, ext = nanoseconds since the Unix epoch
//	loc                     nil (UTC) or a pointer to an engine zone object
//
// Every time.* function reached by encoded code is an intrinsic defined here;
// anything else in package time is un-modelled (inconclusive).

import (
	"go/types"
)

const zeroTimeUnixNano = -6795364578871345152 // time.Time{}.UnixNano()

var zeroTimeBits = func() uint64 { v := int64(zeroTimeUnixNano); return uint64(v) }()

func (in *Interp) timeVal(ns *Term) Value {
	return Struct{in.tt.BV(64, 1), ns, (*Value)(nil)}
}

func (in *Interp) timeParts(v Value) (set *Term, ns *Term, loc Value) {
	s, ok := v.(Struct)
	if !ok || len(s) != 3 {
		in.unsupported("time.Time value of unexpected shape")
	}
	w := s[0].(*Term)
	return in.tt.Not(in.tt.Eq(w, in.tt.BV(64, 0))), s[1].(*Term), s[2]
}

// timeKey orders instants with the zero Time first.
func (in *Interp) timeKey(v Value) *Term {
	set, _, _ := in.timeParts(v)
	return in.tt.Ite(set, in.timeNS(v), in.tt.BV(64, 1<<63))
}

func recvTime(in *Interp, v Value) Value {
	if p, ok := v.(*Value); ok {
		if p == nil {
			in.targetPanic("nil *time.Time")
		}
		return *p
	}
	return v
}

func init() {
	intrinsics["time.Now"] = func(in *Interp, fr *frame, args []Value) Value {
		tt := in.tt
		if in.path == nil {
			return in.timeVal(tt.BV(64, 1_700_000_000_000_000_000))
		}
		ns := in.freshVar(64)
		lo := in.lastNow
		if lo == nil {
			lo = tt.BV(64, 1_600_000_000_000_000_000) // after 2020: "now" is never near the epoch
		}
		in.addPC(tt.Cmp(OpSle, lo, ns))
		in.addPC(tt.Cmp(OpSlt, ns, tt.BV(64, 4_000_000_000_000_000_000))) // before 2096
		in.lastNow = ns
		return in.timeVal(ns)
	}
	intrinsics["time.Unix"] = func(in *Interp, fr *frame, args []Value) Value {
		sec, nsec := args[0].(*Term), args[1].(*Term)
		tt := in.tt
		if sec.op == OpConst {
			return in.timeVal(tt.Bin(OpAdd, tt.BV(64, sec.val*1_000_000_000), nsec))
		}
		return in.timeVal(tt.Bin(OpAdd, tt.Bin(OpMul, sec, tt.BV(64, 1_000_000_000)), nsec))
	}
	intrinsics["(time.Time).UnixNano"] = func(in *Interp, fr *frame, args []Value) Value {
		set, _, _ := in.timeParts(args[0])
		return in.tt.Ite(set, in.timeNS(args[0]), in.tt.BV(64, zeroTimeBits))
	}
	intrinsics["(time.Time).IsZero"] = func(in *Interp, fr *frame, args []Value) Value {
		set, _, _ := in.timeParts(args[0])
		return in.tt.Not(set)
	}
	intrinsics["(time.Time).Before"] = func(in *Interp, fr *frame, args []Value) Value {
		return in.timeLess(args[0], args[1], false)
	}
	intrinsics["(time.Time).After"] = func(in *Interp, fr *frame, args []Value) Value {
		return in.timeLess(args[1], args[0], false)
	}
	intrinsics["(time.Time).Equal"] = func(in *Interp, fr *frame, args []Value) Value {
		return in.timeEq(args[0], args[1])
	}
	intrinsics["(time.Time).Compare"] = func(in *Interp, fr *frame, args []Value) Value {
		a, b := in.timeKey(args[0]), in.timeKey(args[1])
		tt := in.tt
		return tt.Ite(tt.Cmp(OpSlt, a, b), tt.BV(64, ^uint64(0)), tt.Ite(tt.Eq(a, b), tt.BV(64, 0), tt.BV(64, 1)))
	}
	intrinsics["(time.Time).Sub"] = func(in *Interp, fr *frame, args []Value) Value {
		return in.tt.Bin(OpSub, in.timeNS(args[0]), in.timeNS(args[1]))
	}
	intrinsics["(time.Time).Add"] = func(in *Interp, fr *frame, args []Value) Value {
		s := args[0].(Struct)
		return Struct{s[0], in.tt.Bin(OpAdd, in.timeNS(args[0]), args[1].(*Term)), s[2]}
	}
	intrinsics["time.Since"] = func(in *Interp, fr *frame, args []Value) Value {
		now := intrinsics["time.Now"](in, fr, nil)
		return in.tt.Bin(OpSub, in.timeNS(now), in.timeNS(args[0]))
	}
	for _, n := range []string{"(time.Time).UTC", "(time.Time).Local", "(time.Time).Round", "(time.Time).Truncate"} {
		name := n
		intrinsics[name] = func(in *Interp, fr *frame, args []Value) Value {
			if name == "(time.Time).Round" || name == "(time.Time).Truncate" {
				d := args[1].(*Term)
				if !(d.op == OpConst && d.sval() <= 1) {
					in.unsupported(name + " with a duration above 1ns")
				}
			}
			s := args[0].(Struct)
			return Struct{s[0], s[1], (*Value)(nil)}
		}
	}
	intrinsics["(time.Duration).String"] = func(in *Interp, fr *frame, args []Value) Value {
		return concStr(in.tt, "<duration>")
	}
	intrinsics["(time.Time).String"] = func(in *Interp, fr *frame, args []Value) Value {
		return concStr(in.tt, "<time>")
	}
	intrinsics["(time.Time).Format"] = func(in *Interp, fr *frame, args []Value) Value {
		return concStr(in.tt, "<time>")
	}
	intrinsics["time.NewTicker"] = func(in *Interp, fr *frame, args []Value) Value {
		// a ticker that never fires unless the harness pushes into its channel
		p := new(Value)
		ch := &Chan{cap: 1, name: "ticker"}
		*p = Struct{ch, Struct{}, in.tt.F}
		// shape of time.Ticker differs between versions; build from type
		return in.newTickerValue(fr, ch)
	}
	intrinsics["(*time.Ticker).Stop"] = noop
	intrinsics["(*time.Ticker).Reset"] = noop
	intrinsics["(*time.Timer).Stop"] = func(in *Interp, fr *frame, args []Value) Value { return in.tt.T }
	intrinsics["(*time.Timer).Reset"] = func(in *Interp, fr *frame, args []Value) Value { return in.tt.T }
	intrinsics["time.After"] = func(in *Interp, fr *frame, args []Value) Value {
		return &Chan{cap: 1, name: "time.After"}
	}
}

// newTickerValue allocates a *time.Ticker whose C field is ch.
func (in *Interp) newTickerValue(fr *frame, ch *Chan) Value {
	res := fr.fn.Signature.Results().At(0).Type() // *time.Ticker / *time.Timer
	st := deref(res)
	v := in.zero(st).(Struct)
	stt := st.Underlying().(*types.Struct)
	for i := 0; i < stt.NumFields(); i++ {
		if stt.Field(i).Name() == "C" {
			v[i] = ch
		}
	}
	p := new(Value)
	*p = v
	return p
}

func init() {
	// Duration accessors: exact on constants, otherwise an arbitrary value
	// (over-approximation; avoids 64-bit division by 10^k in the solver).
	durInt := func(div int64) intrinsic {
		return func(in *Interp, fr *frame, args []Value) Value {
			d := args[0].(*Term)
			if d.op == OpConst {
				return in.tt.BV(64, uint64(d.sval()/div))
			}
			return in.freshVar(64)
		}
	}
	intrinsics["(time.Duration).Milliseconds"] = durInt(1_000_000)
	intrinsics["(time.Duration).Microseconds"] = durInt(1_000)
	intrinsics["(time.Duration).Nanoseconds"] = func(in *Interp, fr *frame, args []Value) Value { return args[0] }
	durFloat := func(div float64) intrinsic {
		return func(in *Interp, fr *frame, args []Value) Value {
			d := args[0].(*Term)
			if d.op == OpConst {
				return in.fpConst(64, float64(d.sval())/div)
			}
			return in.freshVar(64)
		}
	}
	intrinsics["(time.Duration).Seconds"] = durFloat(1e9)
	intrinsics["(time.Duration).Minutes"] = durFloat(60e9)
	intrinsics["(time.Duration).Hours"] = durFloat(3600e9)
}
