package main

// reflect layer (DESIGN.md section 3.6). reflect.Value keeps its real
// three-field struct layout; the engine stores a pointer to an rvalue object
// in its first field (nil = the zero, invalid Value). An rvalue is a static
// type from go/types plus the address of the value in engine memory plus the
// settable flag. reflect.Type values are interface values holding a canonical
// pointer per type. The methods used by data/{encode,decode,merge}.go and the
// client package are implemented with reflect's panics reproduced; types are
// concrete per harness, only the data is symbolic.

import (
	"fmt"
	"go/types"
	"reflect"
	"strings"

	"golang.org/x/tools/go/ssa"
)

type rvalue struct {
	t      types.Type
	slot   *Value
	canSet bool
}

type rtypeObj struct{ t types.Type }

type mapIterObj struct {
	m       *Map
	keys    []*mapEntry
	i       int
	kt, vt  types.Type
	started bool
}

func (in *Interp) reflectPkg() *ssa.Package {
	p := in.prog.ImportedPackage("reflect")
	if p == nil {
		in.unsupported("reflect package not loaded")
	}
	return p
}

func (in *Interp) rvNew(t types.Type, slot *Value, canSet bool) Value {
	vt := in.reflectPkg().Type("Value").Object().Type()
	s := in.zero(vt).(Struct)
	s[0] = opaquePtr("rv", &rvalue{t: t, slot: slot, canSet: canSet})
	return s
}

func (in *Interp) rvInvalid() Value {
	return in.zero(in.reflectPkg().Type("Value").Object().Type())
}

func cell(v Value) *Value {
	p := new(Value)
	*p = v
	return p
}

// rv unwraps a reflect.Value; nil for the invalid Value.
func (in *Interp) rv(v Value) *rvalue {
	s, ok := v.(Struct)
	if !ok || len(s) == 0 {
		in.unsupported(fmt.Sprintf("reflect.Value of unexpected shape %T", v))
	}
	p, _ := s[0].(*Value)
	if p == nil {
		return nil
	}
	o, ok := (*p).(*Opaque)
	if !ok || o.kind != "rv" {
		in.unsupported("reflect.Value not created by the engine")
	}
	return o.data.(*rvalue)
}

func (in *Interp) rvMust(v Value, method string) *rvalue {
	r := in.rv(v)
	if r == nil {
		in.targetPanic("reflect: call of reflect.Value." + method + " on zero Value")
	}
	return r
}

func kindOf(t types.Type) reflect.Kind {
	switch u := t.Underlying().(type) {
	case *types.Basic:
		switch u.Kind() {
		case types.Bool:
			return reflect.Bool
		case types.Int:
			return reflect.Int
		case types.Int8:
			return reflect.Int8
		case types.Int16:
			return reflect.Int16
		case types.Int32:
			return reflect.Int32
		case types.Int64:
			return reflect.Int64
		case types.Uint:
			return reflect.Uint
		case types.Uint8:
			return reflect.Uint8
		case types.Uint16:
			return reflect.Uint16
		case types.Uint32:
			return reflect.Uint32
		case types.Uint64:
			return reflect.Uint64
		case types.Uintptr:
			return reflect.Uintptr
		case types.Float32:
			return reflect.Float32
		case types.Float64:
			return reflect.Float64
		case types.String:
			return reflect.String
		case types.UnsafePointer:
			return reflect.UnsafePointer
		}
	case *types.Pointer:
		return reflect.Pointer
	case *types.Slice:
		return reflect.Slice
	case *types.Array:
		return reflect.Array
	case *types.Map:
		return reflect.Map
	case *types.Struct:
		return reflect.Struct
	case *types.Interface:
		return reflect.Interface
	case *types.Signature:
		return reflect.Func
	case *types.Chan:
		return reflect.Chan
	}
	return reflect.Invalid
}

// rtypeOf returns the reflect.Type interface value for t (canonical per type).
func (in *Interp) rtypeOf(t types.Type) Value {
	if t == nil {
		return Iface{}
	}
	key := types.TypeString(t, nil)
	p, ok := in.rtypes[key]
	if !ok {
		p = opaquePtr("rtype", &rtypeObj{t: t})
		in.rtypes[key] = p
	}
	rt := in.reflectPkg().Type("rtype").Object().Type()
	return Iface{t: types.NewPointer(rt), v: p}
}

func (in *Interp) rtypeFrom(v Value) types.Type {
	i, ok := v.(Iface)
	if !ok || i.t == nil {
		in.targetPanic("reflect: nil Type")
	}
	p, _ := i.v.(*Value)
	if p == nil {
		in.targetPanic("reflect: nil Type")
	}
	o, ok := (*p).(*Opaque)
	if !ok || o.kind != "rtype" {
		in.unsupported("reflect.Type not created by the engine")
	}
	return o.data.(*rtypeObj).t
}

func (in *Interp) kindTerm(k reflect.Kind) Value { return in.tt.BV(64, uint64(k)) }

func (in *Interp) structField(st *types.Struct, i int, tagOf func(int) string) Value {
	sft := in.reflectPkg().Type("StructField").Object().Type()
	v := in.zero(sft).(Struct)
	sst := sft.Underlying().(*types.Struct)
	f := st.Field(i)
	for k := 0; k < sst.NumFields(); k++ {
		switch sst.Field(k).Name() {
		case "Name":
			v[k] = concStr(in.tt, f.Name())
		case "PkgPath":
			if !f.Exported() && f.Pkg() != nil {
				v[k] = concStr(in.tt, f.Pkg().Path())
			}
		case "Type":
			v[k] = in.rtypeOf(f.Type())
		case "Tag":
			v[k] = concStr(in.tt, tagOf(i))
		case "Anonymous":
			v[k] = in.tt.Bool(f.Anonymous())
		}
	}
	return v
}

// rtypeMethod resolves reflect.Type interface methods on engine rtypes.
func (in *Interp) rtypeMethod(recv Iface, name string) *NativeFunc {
	p, ok := recv.v.(*Value)
	if !ok || p == nil {
		return nil
	}
	o, ok := (*p).(*Opaque)
	if !ok || o.kind != "rtype" {
		return nil
	}
	t := o.data.(*rtypeObj).t
	mk := func(f func(in *Interp, a []Value) Value) *NativeFunc {
		return &NativeFunc{name: "reflect.Type." + name, f: func(in *Interp, caller *frame, a []Value) Value { return f(in, a) }}
	}
	switch name {
	case "Kind":
		return mk(func(in *Interp, a []Value) Value { return in.kindTerm(kindOf(t)) })
	case "Name":
		return mk(func(in *Interp, a []Value) Value {
			if n, ok := t.(*types.Named); ok {
				return concStr(in.tt, n.Obj().Name())
			}
			if b, ok := t.(*types.Basic); ok {
				return concStr(in.tt, b.Name())
			}
			return Str{}
		})
	case "String":
		return mk(func(in *Interp, a []Value) Value {
			return concStr(in.tt, types.TypeString(t, func(p *types.Package) string { return p.Name() }))
		})
	case "PkgPath":
		return mk(func(in *Interp, a []Value) Value {
			if n, ok := t.(*types.Named); ok && n.Obj().Pkg() != nil {
				return concStr(in.tt, n.Obj().Pkg().Path())
			}
			return Str{}
		})
	case "Elem":
		return mk(func(in *Interp, a []Value) Value {
			switch u := t.Underlying().(type) {
			case *types.Pointer:
				return in.rtypeOf(u.Elem())
			case *types.Slice:
				return in.rtypeOf(u.Elem())
			case *types.Array:
				return in.rtypeOf(u.Elem())
			case *types.Map:
				return in.rtypeOf(u.Elem())
			case *types.Chan:
				return in.rtypeOf(u.Elem())
			}
			in.targetPanic("reflect: Elem of invalid type " + t.String())
			return nil
		})
	case "Key":
		return mk(func(in *Interp, a []Value) Value {
			if u, ok := t.Underlying().(*types.Map); ok {
				return in.rtypeOf(u.Key())
			}
			in.targetPanic("reflect: Key of non-map type " + t.String())
			return nil
		})
	case "Len":
		return mk(func(in *Interp, a []Value) Value {
			if u, ok := t.Underlying().(*types.Array); ok {
				return in.tt.BV(64, uint64(u.Len()))
			}
			in.targetPanic("reflect: Len of non-array type " + t.String())
			return nil
		})
	case "NumField":
		return mk(func(in *Interp, a []Value) Value {
			if u, ok := t.Underlying().(*types.Struct); ok {
				return in.tt.BV(64, uint64(u.NumFields()))
			}
			in.targetPanic("reflect: NumField of non-struct type " + t.String())
			return nil
		})
	case "Field":
		return mk(func(in *Interp, a []Value) Value {
			u, ok := t.Underlying().(*types.Struct)
			if !ok {
				in.targetPanic("reflect: Field of non-struct type " + t.String())
			}
			i := a[1].(*Term)
			if i.op != OpConst {
				in.unsupported("reflect.Type.Field with symbolic index")
			}
			if int(i.sval()) < 0 || int(i.sval()) >= u.NumFields() {
				in.targetPanic("reflect: Field index out of bounds")
			}
			return in.structField(u, int(i.val), u.Tag)
		})
	case "Comparable":
		return mk(func(in *Interp, a []Value) Value { return in.tt.Bool(types.Comparable(t)) })
	}
	return nil
}

func (in *Interp) rvLoad(r *rvalue) Value { return copyVal(*r.slot) }

func (in *Interp) needSet(r *rvalue, method string) {
	if !r.canSet {
		in.targetPanic("reflect: reflect.Value." + method + " using unaddressable value")
	}
}

func (in *Interp) rvLen(r *rvalue, method string) *Term {
	switch x := (*r.slot).(type) {
	case Slice:
		return x.len
	case ArrVal:
		return in.tt.BV(64, uint64(len(x)))
	case Str:
		return in.tt.BV(64, uint64(len(x.b)))
	case *Map:
		if x == nil {
			return in.zero64
		}
		return in.tt.BV(64, uint64(x.live))
	case *Chan:
		if x == nil {
			return in.zero64
		}
		return in.tt.BV(64, uint64(len(x.buf)))
	}
	in.targetPanic("reflect: call of reflect.Value." + method + " on " + kindOf(r.t).String() + " Value")
	return nil
}

func elemType(t types.Type) types.Type {
	switch u := t.Underlying().(type) {
	case *types.Pointer:
		return u.Elem()
	case *types.Slice:
		return u.Elem()
	case *types.Array:
		return u.Elem()
	case *types.Map:
		return u.Elem()
	}
	return nil
}

func (in *Interp) rvEqual(a, b *rvalue) *Term {
	if a == nil || b == nil {
		return in.tt.Bool(a == nil && b == nil)
	}
	if kindOf(a.t) != kindOf(b.t) {
		return in.tt.F
	}
	if !types.Comparable(a.t) {
		in.targetPanic("reflect.Value.Equal: values of type " + a.t.String() + " are not comparable")
	}
	return in.eqVal(a.t, *a.slot, *b.slot)
}

func init() {
	R := "reflect."
	V := "(reflect.Value)."
	intrinsics[R+"TypeOf"] = func(in *Interp, fr *frame, args []Value) Value {
		i := args[0].(Iface)
		return in.rtypeOf(i.t)
	}
	intrinsics[R+"ValueOf"] = func(in *Interp, fr *frame, args []Value) Value {
		i := args[0].(Iface)
		if i.t == nil {
			return in.rvInvalid()
		}
		return in.rvNew(i.t, cell(copyVal(i.v)), false)
	}
	intrinsics[R+"Indirect"] = func(in *Interp, fr *frame, args []Value) Value {
		r := in.rv(args[0])
		if r == nil || kindOf(r.t) != reflect.Pointer {
			return args[0]
		}
		return intrinsics[V+"Elem"](in, fr, args)
	}
	intrinsics[R+"Zero"] = func(in *Interp, fr *frame, args []Value) Value {
		t := in.rtypeFrom(args[0])
		return in.rvNew(t, cell(in.zero(t)), false)
	}
	intrinsics[R+"New"] = func(in *Interp, fr *frame, args []Value) Value {
		t := in.rtypeFrom(args[0])
		return in.rvNew(types.NewPointer(t), cell(cell(in.zero(t))), false)
	}
	intrinsics[R+"MakeSlice"] = func(in *Interp, fr *frame, args []Value) Value {
		t := in.rtypeFrom(args[0])
		st, ok := t.Underlying().(*types.Slice)
		if !ok {
			in.targetPanic("reflect.MakeSlice of non-slice type")
		}
		n := int(int64(in.concretize(args[1].(*Term), "MakeSlice len")))
		c := int(int64(in.concretize(args[2].(*Term), "MakeSlice cap")))
		if n < 0 || c < 0 || n > c {
			in.targetPanic("reflect.MakeSlice: bad len/cap")
		}
		if c > 1<<20 {
			in.unsupported("reflect.MakeSlice too large")
		}
		a := in.newArray(c, st.Elem())
		return in.rvNew(t, cell(Slice{arr: a, len: in.tt.BV(64, uint64(n)), cap: in.tt.BV(64, uint64(c))}), false)
	}
	intrinsics[R+"MakeMapWithSize"] = func(in *Interp, fr *frame, args []Value) Value {
		t := in.rtypeFrom(args[0])
		mt, ok := t.Underlying().(*types.Map)
		if !ok {
			in.targetPanic("reflect.MakeMapWithSize of non-map type")
		}
		return in.rvNew(t, cell(in.newMap(mt.Key())), false)
	}
	intrinsics[R+"MakeMap"] = intrinsics[R+"MakeMapWithSize"]
	intrinsics[R+"Copy"] = func(in *Interp, fr *frame, args []Value) Value {
		d, s := in.rvMust(args[0], "Copy"), in.rvMust(args[1], "Copy")
		ds, ok1 := (*d.slot).(Slice)
		ss, ok2 := (*s.slot).(Slice)
		if !ok1 || !ok2 {
			in.unsupported("reflect.Copy on non-slices")
		}
		n := 0
		if ds.arr != nil && ss.arr != nil {
			src := in.sliceElems(ss)
			n = in.concLen(ds)
			if len(src) < n {
				n = len(src)
			}
			for i := 0; i < n; i++ {
				in.storeInto(ds.arr.slot(ds.off+i), copyVal(src[i]))
			}
		}
		return in.tt.BV(64, uint64(n))
	}

	intrinsics[V+"IsValid"] = func(in *Interp, fr *frame, args []Value) Value {
		return in.tt.Bool(in.rv(args[0]) != nil)
	}
	intrinsics[V+"Type"] = func(in *Interp, fr *frame, args []Value) Value {
		return in.rtypeOf(in.rvMust(args[0], "Type").t)
	}
	intrinsics[V+"Kind"] = func(in *Interp, fr *frame, args []Value) Value {
		r := in.rv(args[0])
		if r == nil {
			return in.kindTerm(reflect.Invalid)
		}
		return in.kindTerm(kindOf(r.t))
	}
	intrinsics[V+"CanSet"] = func(in *Interp, fr *frame, args []Value) Value {
		r := in.rv(args[0])
		return in.tt.Bool(r != nil && r.canSet)
	}
	intrinsics[V+"CanAddr"] = intrinsics[V+"CanSet"]
	intrinsics[V+"CanInterface"] = func(in *Interp, fr *frame, args []Value) Value { return in.tt.T }
	intrinsics[V+"Elem"] = func(in *Interp, fr *frame, args []Value) Value {
		r := in.rvMust(args[0], "Elem")
		switch kindOf(r.t) {
		case reflect.Pointer:
			p, _ := (*r.slot).(*Value)
			if p == nil {
				return in.rvInvalid()
			}
			return in.rvNew(elemType(r.t), p, true)
		case reflect.Interface:
			i := (*r.slot).(Iface)
			if i.t == nil {
				return in.rvInvalid()
			}
			return in.rvNew(i.t, cell(copyVal(i.v)), false)
		}
		in.targetPanic("reflect: call of reflect.Value.Elem on " + kindOf(r.t).String() + " Value")
		return nil
	}
	intrinsics[V+"IsNil"] = func(in *Interp, fr *frame, args []Value) Value {
		r := in.rvMust(args[0], "IsNil")
		switch kindOf(r.t) {
		case reflect.Pointer, reflect.Map, reflect.Slice, reflect.Func, reflect.Chan, reflect.Interface, reflect.UnsafePointer:
			return in.tt.Bool(in.isNilValue(*r.slot))
		}
		in.targetPanic("reflect: call of reflect.Value.IsNil on " + kindOf(r.t).String() + " Value")
		return nil
	}
	intrinsics[V+"IsZero"] = func(in *Interp, fr *frame, args []Value) Value {
		r := in.rvMust(args[0], "IsZero")
		if types.Comparable(r.t) {
			return in.eqVal(r.t, *r.slot, in.zero(r.t))
		}
		return in.tt.Bool(in.isNilValue(*r.slot))
	}
	intrinsics[V+"Set"] = func(in *Interp, fr *frame, args []Value) Value {
		r := in.rvMust(args[0], "Set")
		in.needSet(r, "Set")
		x := in.rvMust(args[1], "Set")
		if !types.AssignableTo(x.t, r.t) {
			in.targetPanic("reflect.Set: value of type " + x.t.String() + " is not assignable to type " + r.t.String())
		}
		v := in.rvLoad(x)
		if _, isI := r.t.Underlying().(*types.Interface); isI {
			if _, srcI := x.t.Underlying().(*types.Interface); !srcI {
				v = Iface{t: x.t, v: v}
			}
		}
		in.store(r.slot, v)
		return nil
	}
	intrinsics[V+"Interface"] = func(in *Interp, fr *frame, args []Value) Value {
		r := in.rvMust(args[0], "Interface")
		if _, isI := r.t.Underlying().(*types.Interface); isI {
			return in.rvLoad(r)
		}
		return Iface{t: r.t, v: in.rvLoad(r)}
	}
	intrinsics[V+"NumField"] = func(in *Interp, fr *frame, args []Value) Value {
		r := in.rvMust(args[0], "NumField")
		st, ok := r.t.Underlying().(*types.Struct)
		if !ok {
			in.targetPanic("reflect: call of reflect.Value.NumField on " + kindOf(r.t).String() + " Value")
		}
		return in.tt.BV(64, uint64(st.NumFields()))
	}
	intrinsics[V+"Field"] = func(in *Interp, fr *frame, args []Value) Value {
		r := in.rvMust(args[0], "Field")
		st, ok := r.t.Underlying().(*types.Struct)
		if !ok {
			in.targetPanic("reflect: call of reflect.Value.Field on " + kindOf(r.t).String() + " Value")
		}
		i := args[1].(*Term)
		if i.op != OpConst {
			in.unsupported("reflect.Value.Field with symbolic index")
		}
		if int(i.sval()) < 0 || int(i.sval()) >= st.NumFields() {
			in.targetPanic("reflect: Field index out of range")
		}
		s := (*r.slot).(Struct)
		f := st.Field(int(i.val))
		return in.rvNew(f.Type(), &s[i.val], r.canSet && f.Exported())
	}
	intrinsics[V+"Len"] = func(in *Interp, fr *frame, args []Value) Value {
		return in.rvLen(in.rvMust(args[0], "Len"), "Len")
	}
	intrinsics[V+"Cap"] = func(in *Interp, fr *frame, args []Value) Value {
		r := in.rvMust(args[0], "Cap")
		switch x := (*r.slot).(type) {
		case Slice:
			return x.cap
		case ArrVal:
			return in.tt.BV(64, uint64(len(x)))
		}
		in.targetPanic("reflect: call of reflect.Value.Cap on " + kindOf(r.t).String() + " Value")
		return nil
	}
	intrinsics[V+"Index"] = func(in *Interp, fr *frame, args []Value) Value {
		r := in.rvMust(args[0], "Index")
		i := args[1].(*Term)
		tt := in.tt
		switch x := (*r.slot).(type) {
		case Slice:
			if !in.branch(tt.Cmp(OpUlt, i, x.len)) {
				in.targetPanic("reflect: slice index out of range")
			}
			k := in.concretize(i, "reflect index")
			return in.rvNew(elemType(r.t), x.arr.slot(x.off+int(k)), true)
		case ArrVal:
			if !in.branch(tt.Cmp(OpUlt, i, tt.BV(64, uint64(len(x))))) {
				in.targetPanic("reflect: array index out of range")
			}
			k := in.concretize(i, "reflect index")
			return in.rvNew(elemType(r.t), &x[k], r.canSet)
		case Str:
			if !in.branch(tt.Cmp(OpUlt, i, tt.BV(64, uint64(len(x.b))))) {
				in.targetPanic("reflect: string index out of range")
			}
			k := in.concretize(i, "reflect index")
			return in.rvNew(types.Typ[types.Uint8], cell(x.b[k]), false)
		}
		in.targetPanic("reflect: call of reflect.Value.Index on " + kindOf(r.t).String() + " Value")
		return nil
	}
	intrinsics[V+"Slice"] = func(in *Interp, fr *frame, args []Value) Value {
		r := in.rvMust(args[0], "Slice")
		lo, hi := args[1].(*Term), args[2].(*Term)
		tt := in.tt
		x, ok := (*r.slot).(Slice)
		if !ok {
			in.unsupported("reflect.Value.Slice on " + kindOf(r.t).String())
		}
		if !in.branch(tt.And(tt.Cmp(OpSle, in.zero64, lo), tt.And(tt.Cmp(OpSle, lo, hi), tt.Cmp(OpSle, hi, x.cap)))) {
			in.targetPanic("reflect.Value.Slice: slice index out of bounds")
		}
		l := int(in.concretize(lo, "reflect slice low"))
		if x.arr == nil {
			return in.rvNew(r.t, cell(Slice{len: in.zero64, cap: in.zero64}), false)
		}
		lc := tt.BV(64, uint64(l))
		return in.rvNew(r.t, cell(Slice{arr: x.arr, off: x.off + l, len: tt.Bin(OpSub, hi, lc), cap: tt.Bin(OpSub, x.cap, lc)}), false)
	}
	intrinsics[V+"MapIndex"] = func(in *Interp, fr *frame, args []Value) Value {
		r := in.rvMust(args[0], "MapIndex")
		m, ok := (*r.slot).(*Map)
		if !ok {
			in.targetPanic("reflect: call of reflect.Value.MapIndex on " + kindOf(r.t).String() + " Value")
		}
		k := in.rvMust(args[1], "MapIndex")
		if e := in.mapFind(m, in.rvLoad(k)); e != nil {
			return in.rvNew(elemType(r.t), cell(copyVal(e.v)), false)
		}
		return in.rvInvalid()
	}
	intrinsics[V+"SetMapIndex"] = func(in *Interp, fr *frame, args []Value) Value {
		r := in.rvMust(args[0], "SetMapIndex")
		m, ok := (*r.slot).(*Map)
		if !ok {
			in.targetPanic("reflect: call of reflect.Value.SetMapIndex on " + kindOf(r.t).String() + " Value")
		}
		k := in.rvMust(args[1], "SetMapIndex")
		e := in.rv(args[2])
		if e == nil {
			in.mapDelete(m, in.rvLoad(k))
			return nil
		}
		if m == nil {
			in.targetPanic("assignment to entry in nil map")
		}
		in.mapInsert(m, in.rvLoad(k), in.rvLoad(e))
		return nil
	}
	intrinsics[V+"MapRange"] = func(in *Interp, fr *frame, args []Value) Value {
		r := in.rvMust(args[0], "MapRange")
		m, ok := (*r.slot).(*Map)
		if !ok {
			in.targetPanic("reflect: call of reflect.Value.MapRange on " + kindOf(r.t).String() + " Value")
		}
		mt := r.t.Underlying().(*types.Map)
		it := &mapIter{m: m, kt: mt.Key(), vt: mt.Elem()}
		if m != nil {
			for _, e := range m.entries {
				if !e.deleted {
					it.keys = append(it.keys, e)
				}
			}
			in.permuteMapOrder(it)
		}
		return opaquePtr("mapiter", &mapIterObj{m: m, keys: it.keys, i: -1, kt: mt.Key(), vt: mt.Elem()})
	}
	intrinsics["(*reflect.MapIter).Next"] = func(in *Interp, fr *frame, args []Value) Value {
		it := in.handle(args[0], "mapiter").(*mapIterObj)
		for {
			it.i++
			if it.i >= len(it.keys) {
				return in.tt.F
			}
			if !it.keys[it.i].deleted {
				return in.tt.T
			}
		}
	}
	intrinsics["(*reflect.MapIter).Key"] = func(in *Interp, fr *frame, args []Value) Value {
		it := in.handle(args[0], "mapiter").(*mapIterObj)
		if it.i < 0 || it.i >= len(it.keys) {
			in.targetPanic("MapIter.Key called before Next")
		}
		return in.rvNew(it.kt, cell(copyVal(it.keys[it.i].k)), false)
	}
	intrinsics["(*reflect.MapIter).Value"] = func(in *Interp, fr *frame, args []Value) Value {
		it := in.handle(args[0], "mapiter").(*mapIterObj)
		if it.i < 0 || it.i >= len(it.keys) {
			in.targetPanic("MapIter.Value called before Next")
		}
		return in.rvNew(it.vt, cell(copyVal(it.keys[it.i].v)), false)
	}
	intrinsics[V+"Equal"] = func(in *Interp, fr *frame, args []Value) Value {
		return in.rvEqual(in.rv(args[0]), in.rv(args[1]))
	}
	intrinsics[V+"String"] = func(in *Interp, fr *frame, args []Value) Value {
		r := in.rv(args[0])
		if r == nil {
			return concStr(in.tt, "<invalid Value>")
		}
		if s, ok := (*r.slot).(Str); ok && kindOf(r.t) == reflect.String {
			return s
		}
		return concStr(in.tt, "<"+types.TypeString(r.t, func(p *types.Package) string { return p.Name() })+" Value>")
	}
	num := func(method string, signedWant int) intrinsic {
		return func(in *Interp, fr *frame, args []Value) Value {
			r := in.rvMust(args[0], method)
			k := kindOf(r.t)
			t, _ := (*r.slot).(*Term)
			switch {
			case signedWant == 1 && k >= reflect.Int && k <= reflect.Int64:
				return in.tt.Sext(t, 64)
			case signedWant == 0 && k >= reflect.Uint && k <= reflect.Uintptr:
				return in.tt.Zext(t, 64)
			case signedWant == 2 && k == reflect.Float64:
				return t
			case signedWant == 2 && k == reflect.Float32:
				return in.conv(types.Typ[types.Float64], types.Typ[types.Float32], t)
			case signedWant == 3 && k == reflect.Bool:
				return t
			}
			in.targetPanic("reflect: call of reflect.Value." + method + " on " + k.String() + " Value")
			return nil
		}
	}
	intrinsics[V+"Int"] = num("Int", 1)
	intrinsics[V+"Uint"] = num("Uint", 0)
	intrinsics[V+"Float"] = num("Float", 2)
	intrinsics[V+"Bool"] = num("Bool", 3)
	intrinsics[V+"SetString"] = func(in *Interp, fr *frame, args []Value) Value {
		r := in.rvMust(args[0], "SetString")
		in.needSet(r, "SetString")
		if kindOf(r.t) != reflect.String {
			in.targetPanic("reflect: call of reflect.Value.SetString on " + kindOf(r.t).String() + " Value")
		}
		in.store(r.slot, args[1])
		return nil
	}
	intrinsics[V+"SetBool"] = func(in *Interp, fr *frame, args []Value) Value {
		r := in.rvMust(args[0], "SetBool")
		in.needSet(r, "SetBool")
		if kindOf(r.t) != reflect.Bool {
			in.targetPanic("reflect: call of reflect.Value.SetBool on " + kindOf(r.t).String() + " Value")
		}
		in.store(r.slot, args[1])
		return nil
	}
	intrinsics[V+"SetInt"] = func(in *Interp, fr *frame, args []Value) Value {
		r := in.rvMust(args[0], "SetInt")
		in.needSet(r, "SetInt")
		k := kindOf(r.t)
		if k < reflect.Int || k > reflect.Int64 {
			in.targetPanic("reflect: call of reflect.Value.SetInt on " + k.String() + " Value")
		}
		w := typeWidth(r.t)
		in.store(r.slot, in.tt.Extract(args[1].(*Term), w-1, 0))
		return nil
	}
	intrinsics[V+"SetUint"] = func(in *Interp, fr *frame, args []Value) Value {
		r := in.rvMust(args[0], "SetUint")
		in.needSet(r, "SetUint")
		k := kindOf(r.t)
		if k < reflect.Uint || k > reflect.Uintptr {
			in.targetPanic("reflect: call of reflect.Value.SetUint on " + k.String() + " Value")
		}
		w := typeWidth(r.t)
		in.store(r.slot, in.tt.Extract(args[1].(*Term), w-1, 0))
		return nil
	}
	intrinsics[V+"SetFloat"] = func(in *Interp, fr *frame, args []Value) Value {
		r := in.rvMust(args[0], "SetFloat")
		in.needSet(r, "SetFloat")
		switch kindOf(r.t) {
		case reflect.Float64:
			in.store(r.slot, args[1])
		case reflect.Float32:
			in.store(r.slot, in.conv(types.Typ[types.Float32], types.Typ[types.Float64], args[1]))
		default:
			in.targetPanic("reflect: call of reflect.Value.SetFloat on " + kindOf(r.t).String() + " Value")
		}
		return nil
	}
	intrinsics[V+"OverflowInt"] = func(in *Interp, fr *frame, args []Value) Value {
		r := in.rvMust(args[0], "OverflowInt")
		k := kindOf(r.t)
		if k < reflect.Int || k > reflect.Int64 {
			in.targetPanic("reflect: call of reflect.Value.OverflowInt on " + k.String() + " Value")
		}
		w := typeWidth(r.t)
		x := args[1].(*Term)
		if w == 64 {
			return in.tt.F
		}
		return in.tt.Not(in.tt.Eq(in.tt.Sext(in.tt.Extract(x, w-1, 0), 64), x))
	}
	intrinsics[V+"OverflowUint"] = func(in *Interp, fr *frame, args []Value) Value {
		r := in.rvMust(args[0], "OverflowUint")
		k := kindOf(r.t)
		if k < reflect.Uint || k > reflect.Uintptr {
			in.targetPanic("reflect: call of reflect.Value.OverflowUint on " + k.String() + " Value")
		}
		w := typeWidth(r.t)
		x := args[1].(*Term)
		if w == 64 {
			return in.tt.F
		}
		return in.tt.Not(in.tt.Eq(in.tt.Zext(in.tt.Extract(x, w-1, 0), 64), x))
	}
	intrinsics[V+"OverflowFloat"] = func(in *Interp, fr *frame, args []Value) Value { return in.tt.F }
	intrinsics["(reflect.StructTag).Get"] = func(in *Interp, fr *frame, args []Value) Value {
		tag, ok1 := args[0].(Str).conc()
		key, ok2 := args[1].(Str).conc()
		if !ok1 || !ok2 {
			in.unsupported("StructTag.Get on symbolic strings")
		}
		return concStr(in.tt, reflect.StructTag(tag).Get(key))
	}
	intrinsics["(reflect.StructTag).Lookup"] = func(in *Interp, fr *frame, args []Value) Value {
		tag, _ := args[0].(Str).conc()
		key, _ := args[1].(Str).conc()
		v, ok := reflect.StructTag(tag).Lookup(key)
		return Tuple{concStr(in.tt, v), in.tt.Bool(ok)}
	}
	intrinsics["(reflect.Kind).String"] = func(in *Interp, fr *frame, args []Value) Value {
		k := args[0].(*Term)
		if k.op != OpConst {
			return concStr(in.tt, "kind")
		}
		return concStr(in.tt, reflect.Kind(k.val).String())
	}
	_ = strings.Contains
}
